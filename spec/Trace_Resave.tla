---------------------------- MODULE Trace_Resave ----------------------------
(***************************************************************************)
(* Trace validation for C04.  One case = one original file (corpus file,   *)
(* workbook generated through the public API and saved once, or a file     *)
(* built from a TLC behaviour of MC_Resave) driven through the protocol of *)
(* harness/src/bin/resave.rs:                                              *)
(*   Load, Resave A 1, SaveTwice, Resave A 2.., {Edit, Resave B 1..}*      *)
(* Every event carries "obs" = the projection of the loaded workbook       *)
(* through public getters (the content of Resave.tla, PART 1) and "file" = *)
(* the independent decoder's view of the bytes (pydec/resave_view.py).     *)
(* TLC judges, with the operators of Resave.tla:                           *)
(*   OrigSim        Norm(gen 1) = NormWb(gen 0, D)                         *)
(*   FixedPoint     Norm(gen k) = Norm(gen k-1), same parts, same strings  *)
(*   SaveTwiceSame  second save of the unchanged workbook: same content,   *)
(*                  same parts, same strings as the first                  *)
(*   EditLocal      Norm(gen 1 of the edited workbook) = gen 1 of the      *)
(*                  unedited one with exactly the edited cell replaced     *)
(* After a mismatch the specification follows the observation.             *)
(***************************************************************************)
EXTENDS Resave, TraceBase

VARIABLES l, st
tvars == <<l, st>>
(* the bounded model's variables are not used here *)
Idle == [mode |-> "idle", kind |-> "", gen |-> 0, orig |-> <<>>, origFile |-> <<>>, base |-> <<>>, cur |-> <<>>,
         curFile |-> <<>>, dd |-> "", ed |-> <<>>]

Ev == Rec[l]

(* ---- reporting: the first difference of two contents ------------------------------------------- *)
SeqFields == {"cells", "rows", "cols", "merges", "links", "comments", "dvs", "cfs", "af", "tab", "views", "prot",
              "names", "tables"}
MinN(a, b) == IF a <= b THEN a ELSE b
FirstDiffIdx(a, b) ==
  LET n == MinN(Len(a), Len(b))
      bad == {i \in 1..n : a[i] # b[i]}
  IN IF bad = {} THEN n + 1 ELSE MinOf(bad)
At(q, i) == IF i <= Len(q) THEN <<q[i]>> ELSE <<>>
DiffSheet(a, b) ==
  LET fs == {f \in DOMAIN a : a[f] # b[f]}
      f  == CHOOSE x \in fs : (x \in SeqFields \/ fs \cap SeqFields = {})
  IN IF f \in SeqFields
     THEN LET i == FirstDiffIdx(a[f], b[f]) IN <<fs, f, i, "expected", At(a[f], i), "observed", At(b[f], i)>>
     ELSE <<fs, f, "expected", a[f], "observed", b[f]>>
Diff(want, got) ==
  IF DOMAIN want # DOMAIN got THEN <<"fields", DOMAIN want, DOMAIN got>>
  ELSE IF Len(want.sheets) # Len(got.sheets) THEN <<"sheet count", Len(want.sheets), Len(got.sheets)>>
  ELSE LET bad == {i \in DOMAIN want.sheets : want.sheets[i] # got.sheets[i]} IN
       IF bad # {}
       THEN IF DOMAIN want.sheets[MinOf(bad)] # DOMAIN got.sheets[MinOf(bad)] THEN <<"sheet fields", MinOf(bad)>>
            ELSE <<"sheet", MinOf(bad), DiffSheet(want.sheets[MinOf(bad)], got.sheets[MinOf(bad)])>>
       ELSE LET fs == {f \in DOMAIN want : want[f] # got[f]}
                f  == CHOOSE x \in fs : TRUE
            IN <<"workbook", fs, "expected", want[f], "observed", got[f]>>
DiffFile(a, b) ==
  IF a.parts # b.parts
  THEN <<"parts", {a.parts[i] : i \in DOMAIN a.parts} \ {b.parts[i] : i \in DOMAIN b.parts},
                  {b.parts[i] : i \in DOMAIN b.parts} \ {a.parts[i] : i \in DOMAIN a.parts}>>
  ELSE <<"strings", Len(a.strings), Len(b.strings), At(a.strings, FirstDiffIdx(a.strings, b.strings)),
         At(b.strings, FirstDiffIdx(a.strings, b.strings))>>

(* ---- known findings ------------------------------------------------------------------------------ *)
(* C04-KF2: a sheet's code name is written only when the workbook has macros: it is lost otherwise.     *)
(* C04-KF3: in a workbook with macros a sheet without code name is written with its sheet name as code  *)
(*          name.  Both: exact outcome, first save only (the result is stable afterwards).              *)
KF2Trigger(W) == ~W.macros /\ \E i \in DOMAIN W.sheets : W.sheets[i].code # ""
KF3Trigger(W) == W.macros /\ \E i \in DOMAIN W.sheets : W.sheets[i].code = ""
CodeAfterSave(S, macros) ==
  IF KFOn("C04-KF2") /\ ~macros /\ S.code # "" THEN ""
  ELSE IF KFOn("C04-KF3") /\ macros /\ S.code = "" THEN S.name
  ELSE S.code
WithCodeKF(W) == [W EXCEPT !.sheets = [i \in DOMAIN W.sheets |-> [W.sheets[i] EXCEPT !.code = CodeAfterSave(W.sheets[i], W.macros)]]]
(* C04-KF1: a VML drawing whose <v:imagedata> designates no relationship is re-written with a          *)
(*          relationship to "../media/" (no such part): the library panics when it loads its own file.  *)
KF1Trigger == st.origFile[1].vmlorphan > 0

(* ---- the steps -------------------------------------------------------------------------------------- *)
Dead == [st EXCEPT !.mode = "dead"]

OnLoad(e) ==
  IF e.outcome = "unreadable"
  THEN /\ st' = [Idle EXCEPT !.mode = "dead", !.kind = e.kind]
       /\ IF e.kind = "corpus" THEN TRUE                      \* "for every file the library can read"
          ELSE IF e.kind = "hex" THEN Mismatch(l, <<"gen", "the library rejects a file of the bounded model">>)
          ELSE Mismatch(l, <<"impl", "Load", "the library cannot read the file it wrote">>)
  ELSE IF e.outcome # "ok"
  THEN st' = [Idle EXCEPT !.mode = "dead", !.kind = e.kind] /\ Mismatch(l, <<"impl", "Load", e.outcome>>)
  ELSE /\ st' = [Idle EXCEPT !.mode = "A", !.kind = e.kind, !.orig = <<e.obs>>, !.origFile = <<e.file>>]
       /\ IF e.file.ok THEN TRUE ELSE Mismatch(l, <<"gen", "the decoder cannot read the original file">>)

(* generation 1 of the unedited workbook against the original *)
OrigCands(e) == IF st.kind = "gen" THEN {st.orig[1].plain} ELSE DCandidates(st.orig[1], e.obs)
OnFirst(e) ==
  LET o    == st.orig[1]
      got  == Norm(e.obs)
      ok   == {D \in OrigCands(e) : NormWb(o, D) = got}
      okKF == {D \in OrigCands(e) : WithCodeKF(NormWb(o, D)) = got}
      next(D) == [st EXCEPT !.gen = 1, !.base = <<got>>, !.cur = <<got>>, !.curFile = <<e.file>>, !.dd = D]
  IN IF ok # {} THEN st' = next(CHOOSE D \in ok : TRUE)
     ELSE IF okKF # {}
     THEN /\ st' = next(CHOOSE D \in okKF : TRUE)
          /\ IF KFOn("C04-KF2") /\ KF2Trigger(o) THEN KFHit("C04-KF2", l) ELSE TRUE
          /\ IF KFOn("C04-KF3") /\ KF3Trigger(o) THEN KFHit("C04-KF3", l) ELSE TRUE
     ELSE LET nonplain == OrigCands(e) \ {o.plain}
              D == IF Cardinality(nonplain) = 1 THEN CHOOSE x \in nonplain : TRUE ELSE o.plain
          IN /\ st' = next(D)
             /\ Mismatch(l, <<"impl", "OrigSim", Diff(NormWb(o, D), got)>>)

(* C04-KF4: a shared formula keeps its text only on its master cell; when that cell is overwritten, the  *)
(*          other cells of the group are still written as <f t="shared" si=".."/> and reload without formula. *)
Orphaned(W, s, orphans) ==
  LET hit(x) == \E i \in DOMAIN orphans : orphans[i].r = x.r /\ orphans[i].c = x.c
      cs == W.sheets[s].cells
  IN Norm([W EXCEPT !.sheets[s].cells = [i \in DOMAIN cs |-> IF hit(cs[i]) THEN [cs[i] EXCEPT !.f = ""] ELSE cs[i]]])
OnEdited(e) ==
  LET got  == Norm(e.obs)
      want == EditExpected(st.base[1], st.ed[1].s, st.ed[1].cell, st.dd)
  IN /\ st' = [st EXCEPT !.gen = 1, !.cur = <<got>>, !.curFile = <<e.file>>]
     /\ IF got = want THEN TRUE
        ELSE IF KFOn("C04-KF4") /\ st.ed[1].orphans # <<>> /\ got = Orphaned(want, st.ed[1].s, st.ed[1].orphans)
        THEN KFHit("C04-KF4", l)
        ELSE Mismatch(l, <<"impl", "EditLocal", Diff(want, got)>>)

OnLater(e) ==
  LET got == Norm(e.obs) IN
  /\ st' = [st EXCEPT !.gen = e.gen, !.cur = <<got>>, !.curFile = <<e.file>>]
  /\ IF got = st.cur[1] THEN TRUE ELSE Mismatch(l, <<"impl", "FixedPoint", e.chain, e.gen, Diff(st.cur[1], got)>>)
  /\ IF FileView(e.file) = FileView(st.curFile[1]) THEN TRUE
     ELSE Mismatch(l, <<"impl", "FileFixedPoint", e.chain, e.gen, DiffFile(st.curFile[1], e.file)>>)

OnResave(e) ==
  IF ~(st.mode = e.chain /\ e.gen = st.gen + 1) THEN st' = Dead /\ Mismatch(l, <<"gen", "protocol", e.chain, e.gen>>)
  ELSE IF e.outcome # "ok"
  THEN /\ st' = Dead
       /\ IF KFOn("C04-KF1") /\ KF1Trigger /\ e.outcome = "load-panic" /\ e.chain = "A" /\ e.gen = 1
          THEN KFHit("C04-KF1", l)
          ELSE Mismatch(l, <<"impl", "Resave", e.chain, e.gen, e.outcome>>)
  ELSE IF ~e.file.ok THEN st' = Dead /\ Mismatch(l, <<"impl", "Resave", e.chain, e.gen, "the written bytes are not a readable package">>)
  ELSE IF e.gen = 1 /\ e.chain = "A" THEN OnFirst(e)
  ELSE IF e.gen = 1 THEN OnEdited(e)
  ELSE OnLater(e)

OnSaveTwice(e) ==
  IF ~(st.mode = "A" /\ st.gen = 1) THEN st' = Dead /\ Mismatch(l, <<"gen", "protocol", "SaveTwice">>)
  ELSE IF e.outcome # "ok" THEN st' = Dead /\ Mismatch(l, <<"impl", "SaveTwice", e.outcome>>)
  ELSE /\ st' = st
       /\ IF Norm(e.obs) = st.base[1] THEN TRUE
          ELSE Mismatch(l, <<"impl", "SaveTwiceSame", "content", Diff(st.base[1], Norm(e.obs))>>)
       /\ IF e.file.ok /\ FileView(e.file) = FileView(st.curFile[1]) THEN TRUE
          ELSE Mismatch(l, <<"impl", "SaveTwiceSame", DiffFile(st.curFile[1], e.file)>>)

OnEdit(e) ==
  IF ~(st.mode \in {"A", "B"} /\ st.gen >= 1) THEN st' = Dead /\ Mismatch(l, <<"gen", "protocol", "Edit">>)
  ELSE IF e.outcome # "ok" THEN st' = Dead /\ Mismatch(l, <<"impl", "Edit", e.outcome>>)
  ELSE IF ~(e.s \in DOMAIN st.base[1].sheets /\ e.cell.r = e.r /\ e.cell.c = e.c /\ e.r >= 1 /\ e.c >= 1)
  THEN st' = Dead /\ Mismatch(l, <<"gen", "edit outside the workbook", e.s, e.r, e.c>>)
  ELSE st' = [st EXCEPT !.mode = "B", !.gen = 0, !.ed = <<[s |-> e.s, cell |-> e.cell, orphans |-> e.orphans]>>]

Step(e) ==
  CASE e.a = "Load"      -> OnLoad(e)
    [] e.a = "Resave"    -> OnResave(e)
    [] e.a = "SaveTwice" -> OnSaveTwice(e)
    [] e.a = "Edit"      -> OnEdit(e)
    [] e.a = "Fatal"     -> st' = Dead /\ Mismatch(l, <<"impl", "fatal", e.outcome>>)
    [] OTHER             -> st' = Dead /\ Mismatch(l, <<"gen", "unknown event", e.a>>)

TraceInit == /\ l = 1 /\ st = Idle
             /\ mem = 0 /\ file = 0 /\ orig = 0 /\ d0 = 0 /\ gen = 0 /\ edit = 0 /\ prev = 0 /\ prevFile = 0
TraceNext == l <= Len(Rec) /\ l' = l + 1 /\ Step(Ev) /\ UNCHANGED vars
TraceSpec == TraceInit /\ [][TraceNext]_<<tvars, vars>>
=============================================================================
