---------------------------- MODULE MC_Channels ----------------------------
(* Channels.tla on all texts of length <= MaxLen over & < > " ' ; x plus texts that look escaped themselves. *)
(* Attribute channels: sheet_name defined_name hyperlink_target hyperlink_location hyperlink_tooltip         *)
(* table_name table_column numfmt_code font_name dv_prompt custom_property_name; element-text channels:     *)
(* cell_text formula_text comment_author comment_text header_footer doc_property defined_name_address       *)
(* cached_string; cell_text and cached_string also pass through the ST_Xstring layer (XChannels).            *)
EXTENDS Channels
=============================================================================
