CONSTANTS MaxRow = 1048576 MaxCol = 16384
  NSheets = {1} Pool = "full" NPos = 2 MaxCells = 2 Depth = 3 MaxSaves = 0 Wide = FALSE Emit = "paths" Dev = {}
SPECIFICATION MCSpec
INVARIANTS EmitInv
CHECK_DEADLOCK FALSE
