\* thorough: every number with <= 2 integer and <= 4 fraction digits, patterns with 0..6 decimals
CONSTANTS I = 2 F = 4 KMax = 6 Block = 10000
SPECIFICATION Spec
INVARIANTS TypeOK ClosedForm HandOver RoundDef PctDef GroupOK FmtShape HalfUnit
PROPERTY Monotone
CHECK_DEADLOCK FALSE
