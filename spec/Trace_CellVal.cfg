CONSTANTS Pos = {1, 2} Texts = {} Forms = {} Nums = {} RichPool = {} Deviant = "none"
CONSTANTS OrcOf <- TrOrc
SPECIFICATION TraceSpec
POSTCONDITION Consumed
CHECK_DEADLOCK FALSE
