CONSTANTS KeyMode = "exact" NBooks = 1 PalKind = "full" MaxImport = 0 MaxAssign = 14 MaxSaves = 3 Pairs = FALSE Wide = TRUE EmitReplay = TRUE
SPECIFICATION MCSpec
INVARIANTS Emit Faithful DimsKept FaithfulFile NoMerge NoGrowth StableSizes WellFormed
CHECK_DEADLOCK FALSE
