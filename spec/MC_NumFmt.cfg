\* quick: every number with <= 2 integer and <= 3 fraction digits, patterns with 0..4 decimals
CONSTANTS I = 2 F = 3 KMax = 4 Block = 1000
SPECIFICATION Spec
INVARIANTS TypeOK ClosedForm HandOver RoundDef PctDef GroupOK FmtShape HalfUnit
PROPERTY Monotone
CHECK_DEADLOCK FALSE
