CONSTANTS
  ChannelNames = {"cell_text", "cached_string"}
  IdReaders = {}
  IdWriters = {}
  MaxLen = 1
  MaxGen = 1
  XChannels = {"cell_text", "cached_string"}
  XEndBug = TRUE
SPECIFICATION CSpec
INVARIANTS DriftFree
CHECK_DEADLOCK FALSE
