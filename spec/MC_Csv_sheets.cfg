\* three sheets, 2x2 window, at most 2 cells anywhere, any sheet active
CONSTANTS NSheets = 3 MaxR = 2 MaxC = 2 MaxCells = 2 FreeLen = 0 Escape = TRUE Overwrite = TRUE Record = FALSE
CONSTANTS Values <- SmallValues FreeAlphabet <- NoFree
SPECIFICATION Spec
INVARIANTS TypeOK InStep ParsedEqualsGrid Rectangular WellFormed FoldAgrees
CHECK_DEADLOCK FALSE
