CONSTANTS MaxGen = 3 DropStyledBlank = FALSE
SPECIFICATION TraceSpec
POSTCONDITION Consumed
CHECK_DEADLOCK FALSE
