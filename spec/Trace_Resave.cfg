CONSTANTS MaxGen = 3 DropStyledBlank = FALSE ColFold = "adjacent" RowSkip = "never"
SPECIFICATION TraceSpec
POSTCONDITION Consumed
CHECK_DEADLOCK FALSE
