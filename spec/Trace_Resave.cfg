CONSTANTS MaxGen = 3 DropStyledBlank = FALSE RowSkip = "never"
SPECIFICATION TraceSpec
POSTCONDITION Consumed
CHECK_DEADLOCK FALSE
