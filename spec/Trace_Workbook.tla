--------------------------- MODULE Trace_Workbook ---------------------------
(***************************************************************************)
(* Trace validation for C01.  The driver (harness/src/bin/workbook.rs)     *)
(* builds a workbook through the public API, saves it into memory with     *)
(* write_writer / write_writer_light, reloads it with read_reader(.., true)*)
(* and logs after every step the public dump of every sheet.               *)
(*                                                                         *)
(*  - SetValue / SetFormula / RemoveCell events build the specification's  *)
(*    own `sheets` with the operators of Workbook.tla; the dump logged     *)
(*    with them must agree (a disagreement there is a tool error: the      *)
(*    workbook under test is not the one the generator meant).             *)
(*  - a SaveLoad event must log exactly NormWb(sheets): on every sheet the *)
(*    same set of non-blank cells, each with the same kind, value text,    *)
(*    number bits and formula text.  TLC is the only judge.                *)
(*  - a cell that does not come back unchanged is accepted only if it is   *)
(*    the exact image ImageUnder(x, D) for a non-empty set D of *enabled*  *)
(*    known deviations whose trigger holds for x (KNOWN-FINDING),          *)
(*    otherwise the event is a MISMATCH.  Afterwards the specification     *)
(*    follows the observed workbook, so the rest of the history is still   *)
(*    checked.                                                             *)
(* Blank cells (no value, no formula) are outside the property: both sides *)
(* are compared under Norm.                                                *)
(***************************************************************************)
EXTENDS Workbook, TraceBase

VARIABLES l,        \* index of the next event
          tr,       \* text |-> text without leading/trailing XML blanks, for every text seen so far
          hollow    \* <<sheet, row, col>> of cells holding a rich text without any run
tvars == <<sheets, sst, file, pc, last, l, tr, hollow>>

KFIds   == {"C01-KF1", "C01-KF2", "C01-KF3", "C01-KF4", "C01-KF5"}
Enabled == {id \in KFIds : KFOn(id)}
Actual  == [dev |-> Enabled, trim |-> tr]

(* ---- looking inside texts: they are logged a second time as sequences of characters -------- *)
WS == {" ", "\t", "\n", "\r"}                       \* what the XML reader's trim_text removes
Join(q) == IF Len(q) = 0 THEN "" ELSE FlattenSeq(q)
MaxOf(S) == CHOOSE x \in S : \A y \in S : y <= x
TrimSeq(q) == LET nz == {i \in DOMAIN q : q[i] \notin WS}
              IN IF nz = {} THEN <<>> ELSE SubSeq(q, MinOf(nz), MaxOf(nz))
Learn(t, chars) == LET tt == Join(TrimSeq(chars)) IN tr @@ (t :> tt) @@ (tt :> tt)
BaseTrim == ("" :> "") @@ ("#VALUE!" :> "#VALUE!")

(* ---- the observed workbook ---------------------------------------------------------------- *)
CellOf(o) == [r |-> o.r, c |-> o.c, k |-> o.k, v |-> o.v, b |-> o.b, f |-> o.f]
ObsSheets(list) == [i \in DOMAIN list |-> {CellOf(list[i].cells[j]) : j \in DOMAIN list[i].cells}]
ObsOK(list) ==
  \A i \in DOMAIN list :
     /\ Cardinality({<<list[i].cells[j].r, list[i].cells[j].c>> : j \in DOMAIN list[i].cells}) = Len(list[i].cells)
     /\ \A j \in DOMAIN list[i].cells :
           LET o == list[i].cells[j] IN o.k \in Kinds /\ o.dt = DataType(o.k) /\ ((o.k = "num") <=> (o.b # ""))
TextsOf(wb) == UNION {{x.v : x \in wb[i]} \cup {x.f : x \in wb[i]} : i \in DOMAIN wb}

(* Mismatch details never quote cell texts (they may hold any character, which would break the line
   protocol with vlib): they name sheet, row, column, the fields that differ and the kinds; the replay
   file holds the script and the observed event, from which checks/c01.py prints the texts. *)
FieldsDiff(x, O) == IF O = {} THEN {"absent"}
                    ELSE LET o == CHOOSE y \in O : TRUE IN {fl \in {"k", "v", "b", "f"} : x[fl] # o[fl]}
KindIn(O) == IF O = {} THEN "absent" ELSE (CHOOSE y \in O : TRUE).k
Brief(i, x, O) == <<"sheet", i, "row", x.r, "col", x.c, "differs in", FieldsDiff(x, O), "expected kind", x.k,
                    "observed kind", KindIn(O), "has formula", x.f # "">>
Diff(want, got) ==
  IF DOMAIN want # DOMAIN got THEN <<"sheet count", Len(want), Len(got)>>
  ELSE LET bad == {i \in DOMAIN want : want[i] # got[i]} IN
       IF bad = {} THEN <<"none">>
       ELSE LET i == MinOf(bad)
                miss == {x \in want[i] : At(got[i], x.r, x.c) # {x}}
            IN IF miss # {} THEN LET x == CHOOSE y \in miss : TRUE IN Brief(i, x, At(got[i], x.r, x.c))
               ELSE LET o == CHOOSE y \in got[i] \ want[i] : TRUE
                    IN <<"sheet", i, "row", o.r, "col", o.c, "unexpected cell of kind", o.k>>

(* ---- known deviations per cell -------------------------------------------------------------- *)
(* C01-KF5: a rich text without any run is written as an empty string item and read back as no value *)
TrigKF5(i, x) == KFOn("C01-KF5") /\ <<i, x.r, x.c>> \in hollow /\ x.k = "rich" /\ TypeOf(x, Actual) = "s"
Blanked(x)    == [x EXCEPT !.k = "blank", !.v = ""]
Eff(i, x)     == IF TrigKF5(i, x) THEN Blanked(x) ELSE x
(* the enabled deviations whose trigger holds for cell x of sheet i *)
HitsOf(i, x)  == LET y == Eff(i, x) IN
  (IF TrigKF5(i, x) THEN {"C01-KF5"} ELSE {})
  \cup (IF On(Actual, "C01-KF1") /\ TrigKF1(y, Actual) THEN {"C01-KF1"} ELSE {})
  \cup (IF On(Actual, "C01-KF2") /\ TrigKF2(y) THEN {"C01-KF2"} ELSE {})
  \cup (IF On(Actual, "C01-KF3") /\ TrigKF3(y, Actual) THEN {"C01-KF3"} ELSE {})
  \cup (IF On(Actual, "C01-KF4") /\ TrigKF4(y, Actual) THEN {"C01-KF4"} ELSE {})
(* the exact image of x when the deviations D act on it *)
ImageUnder(x, D) == CellImage(IF "C01-KF5" \in D THEN Blanked(x) ELSE x, [dev |-> D, trim |-> tr])
(* the non-empty sets of triggered deviations that explain the observation o of cell x exactly; more than one
   triggered deviation may apply to a cell, and a repaired one simply no longer shows: every member of
   the result is still a composition of known exact deviations and nothing else *)
Explains(i, x, o) == {D \in SUBSET HitsOf(i, x) : D # {} /\ o = ImageUnder(x, D)}
Smallest(SS)      == CHOOSE D \in SS : \A E \in SS : Cardinality(D) <= Cardinality(E)
(* cells of sheet i that came back neither unchanged nor as a known image *)
Unexplained(i, W, O) == {x \in W : LET o == At(O, x.r, x.c) IN o # {x} /\ Explains(i, x, o) = {}}
Deviated(i, W, O) == {x \in W : At(O, x.r, x.c) # {x}}
NewCells(W, O)    == {o \in O : At(W, o.r, o.c) = {}}

Ev == Rec[l]

InGrid(e) == e.s \in DOMAIN sheets /\ e.r \in 1..MaxRow /\ e.c \in 1..MaxCol

Step(e) ==
  IF e.a = "Fatal"
  THEN /\ UNCHANGED <<sheets, tr, hollow>>
       /\ Mismatch(l, <<"impl", "fatal", e.outcome>>)
  ELSE
  LET obs  == ObsSheets(e.obs)
      obsN == NormWb(obs)
      resync == /\ sheets' = obsN
                /\ tr' = tr @@ [t \in TextsOf(obsN) |-> t]
                /\ hollow' = {}
  IN
  CASE e.a = "Init" ->
         /\ sheets' = obs /\ tr' = BaseTrim /\ hollow' = {}
         /\ IF e.outcome = "ok" /\ Len(e.obs) = e.n /\ \A i \in DOMAIN obs : obs[i] = {} THEN TRUE
            ELSE Mismatch(l, <<"set", "Init">>)
    [] e.a = "SetValue" ->
         IF e.outcome # "ok" \/ ~InGrid(e) THEN resync /\ Mismatch(l, <<"set", e.a, e.outcome>>)
         ELSE LET new  == [r |-> e.r, c |-> e.c, k |-> e.k, v |-> e.v, b |-> e.b, f |-> ""]
                  post == [sheets EXCEPT ![e.s] = SetValueSheet(@, e.r, e.c, e.k, e.v, e.b)]
                  fine == /\ CellOK(new) /\ Join(e.vc) = e.v
                          /\ (e.k = "rich" => Join([i \in DOMAIN e.runs |-> e.runs[i][1]]) = e.v)
                          /\ ObsOK(e.obs) /\ obsN = NormWb(post)
              IN IF fine
                 THEN /\ sheets' = post
                      /\ tr' = Learn(e.v, e.vc)
                      /\ hollow' = IF e.k = "rich" /\ Len(e.runs) = 0 THEN hollow \cup {<<e.s, e.r, e.c>>}
                                   ELSE hollow \ {<<e.s, e.r, e.c>>}
                 ELSE resync /\ Mismatch(l, <<"set", e.a, Diff(NormWb(post), obsN)>>)
    [] e.a = "SetFormula" ->
         IF e.outcome # "ok" \/ ~InGrid(e) THEN resync /\ Mismatch(l, <<"set", e.a, e.outcome>>)
         ELSE LET post == [sheets EXCEPT ![e.s] = SetFormulaSheet(@, e.r, e.c, e.f)]
                  fine == /\ Join(e.fc) = e.f /\ Len(TrimSeq(e.fc)) > 0
                          /\ ObsOK(e.obs) /\ obsN = NormWb(post)
              IN IF fine
                 THEN sheets' = post /\ tr' = Learn(e.f, e.fc) /\ UNCHANGED hollow
                 ELSE resync /\ Mismatch(l, <<"set", e.a, Diff(NormWb(post), obsN)>>)
    [] e.a = "RemoveCell" ->
         IF e.outcome # "ok" \/ ~InGrid(e) THEN resync /\ Mismatch(l, <<"set", e.a, e.outcome>>)
         ELSE LET post == [sheets EXCEPT ![e.s] = RemoveCellSheet(@, e.r, e.c)] IN
              IF ObsOK(e.obs) /\ obsN = NormWb(post)
              THEN sheets' = post /\ hollow' = hollow \ {<<e.s, e.r, e.c>>} /\ UNCHANGED tr
              ELSE resync /\ Mismatch(l, <<"set", e.a, Diff(NormWb(post), obsN)>>)
    [] e.a = "SaveLoad" ->
         LET want == NormWb(sheets) IN
         IF e.outcome # "ok" \/ e.w \notin Writers \/ ~ObsOK(e.obs)
         THEN resync /\ Mismatch(l, <<"impl", "SaveLoad", e.w, "outcome", e.outcome>>)
         ELSE IF obsN = want
         THEN sheets' = want /\ hollow' = {} /\ UNCHANGED tr              \* the property, literally
         ELSE IF DOMAIN obsN = DOMAIN want
                 /\ \A i \in DOMAIN want : NewCells(want[i], obsN[i]) = {} /\ Unexplained(i, want[i], obsN[i]) = {}
         THEN /\ sheets' = obsN /\ hollow' = {} /\ UNCHANGED tr
              /\ \A id \in UNION {UNION {Smallest(Explains(i, x, At(obsN[i], x.r, x.c))) : x \in Deviated(i, want[i], obsN[i])}
                                   : i \in DOMAIN want} :
                    KFHit(id, l)
         ELSE /\ resync
              /\ Mismatch(l, <<"impl", "SaveLoad", e.w,
                    IF DOMAIN obsN # DOMAIN want THEN Diff(want, obsN)
                    ELSE LET bad == {i \in DOMAIN want : NewCells(want[i], obsN[i]) # {} \/ Unexplained(i, want[i], obsN[i]) # {}}
                             i == MinOf(bad)
                         IN IF Unexplained(i, want[i], obsN[i]) # {}
                            THEN LET x == CHOOSE y \in Unexplained(i, want[i], obsN[i]) : TRUE
                                 IN <<Brief(i, x, At(obsN[i], x.r, x.c)), "known deviations that apply", HitsOf(i, x)>>
                            ELSE LET o == CHOOSE y \in NewCells(want[i], obsN[i]) : TRUE
                                 IN <<"sheet", i, "row", o.r, "col", o.c, "cell not in the saved workbook, kind", o.k>> >>)
    [] OTHER -> UNCHANGED <<sheets, tr, hollow>> /\ Mismatch(l, <<"set", "unknown event", e.a>>)

TraceInit == /\ l = 1 /\ sheets = <<>> /\ sst = <<>> /\ file = NoFile /\ pc = "edit"
             /\ last = [op |-> "Init", s |-> 0] /\ tr = BaseTrim /\ hollow = {}
TraceNext == l <= Len(Rec) /\ l' = l + 1 /\ Step(Ev) /\ UNCHANGED <<sst, file, pc, last>>
TraceSpec == TraceInit /\ [][TraceNext]_tvars
=============================================================================
