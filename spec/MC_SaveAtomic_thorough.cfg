CONSTANTS BufCap = 3 Deviant = "none" MaxChunk = 5 MaxChunks = 4 PlanMode = "any" EmitReplay = FALSE
SPECIFICATION MCSpec
VIEW View
INVARIANTS TypeOK NeverTorn AllOrNothing ErrorNotPanic SinkErrorReturned NothingBuffered FailureReported
PROPERTIES OnlyRenameTouchesDest SameNext
CHECK_DEADLOCK TRUE
