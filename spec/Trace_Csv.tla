---------------------------- MODULE Trace_Csv ----------------------------
(***************************************************************************)
(* Conformance of writer::csv::write_writer with Csv.tla.                  *)
(* One event per step of a case: New (fresh workbook with n sheets),       *)
(* SetCell, RemoveCell, SetActive, Export.  The specification state (book, active) is  *)
(* advanced with the specification's own Post_ operators; an Export event  *)
(* carries the options, the projection of the real workbook (every sheet's *)
(* cells through public getters) and the projection of the written bytes   *)
(* made by pydec/csvparse.py: dec/text = bytes decoded with the selected   *)
(* encoding, grid/wf = that text read by the RFC-4180 reader with the same *)
(* quote character, dec8/text8 = bytes decoded as UTF-8 (UTF-16 options    *)
(* only).  Intended judgement: grid = Grid(book[active], options).         *)
(***************************************************************************)
EXTENDS Csv, TraceBase

VARIABLE l
tvars == <<l, book, active, pc, opt, w, out, ps, enc, bytes, hist>>

Ev == Rec[l]

(* value text of a cell set with kind k: "s" string v, "n" natural number v[1], "b" boolean v[1] *)
RECURSIVE Digits(_)
Digits(n) == IF n < 10 THEN <<48 + n>> ELSE Append(Digits(n \div 10), 48 + (n % 10))
ExpText(k, v) == CASE k = "s" -> v
                   [] k = "n" -> Digits(v[1])
                   [] k = "b" -> IF v[1] = 1 THEN <<84, 82, 85, 69>> ELSE <<70, 65, 76, 83, 69>>

(* the logged projection of a sheet (cells in row/column order) is exactly the sheet *)
PosLess(a, b) == a.r < b.r \/ (a.r = b.r /\ a.c < b.c)
SheetObsOk(sh, cs) ==
  /\ Len(cs) = Cardinality(DOMAIN sh)
  /\ \A i \in DOMAIN cs : <<cs[i].r, cs[i].c>> \in DOMAIN sh /\ sh[<<cs[i].r, cs[i].c>>] = cs[i].t
  /\ \A i \in 1..(Len(cs) - 1) : PosLess(cs[i], cs[i + 1])
BookObsOk(b, a, obs) ==
  /\ obs.active = a
  /\ Len(obs.sheets) = Len(b)
  /\ \A s \in DOMAIN b : SheetObsOk(b[s], obs.sheets[s])

----------------------------------------------------------------------------
(* What the pinned implementation writes (used by the deviations only): every field wrapped,     *)
(* nothing escaped, fields joined by commas, every record ended by CRLF.                        *)
Wrapped(f, q) == IF q = NoWrap THEN f ELSE <<q>> \o f \o <<q>>
RECURSIVE ImplRow(_, _, _)
ImplRow(row, c, q) == IF c > Len(row) THEN <<CR, LF>>
                      ELSE (IF c > 1 THEN <<COMMA>> ELSE << >>) \o Wrapped(row[c], q) \o ImplRow(row, c + 1, q)
RECURSIVE ImplRows(_, _, _)
ImplRows(g, r, q) == IF r > Len(g) THEN << >> ELSE ImplRow(g[r], 1, q) \o ImplRows(g, r + 1, q)
ImplText(g, q) == ImplRows(g, 1, q)

SomeField(g, P(_)) == \E r \in DOMAIN g : \E c \in DOMAIN g[r] : P(g[r][c])

ExportOk(e, g) == e.outcome = "ok" /\ e.dec /\ e.grid = g

(* C20-KF3: the UTF-16 options write UTF-8 bytes *)
KF3(e, g) == /\ e.enc \in {"utf_16_le", "utf_16_be"} /\ Len(g) >= 1
             /\ e.outcome = "ok" /\ e.dec8 /\ e.text8 = ImplText(g, e.wrap)
(* C20-KF1: without wrap character a field containing the delimiter or a line break is written raw *)
KF1(e, g) == /\ e.wrap = NoWrap /\ ~Renderable(g, NoWrap)
             /\ e.outcome = "ok" /\ e.dec /\ e.text = ImplText(g, NoWrap)
(* C20-KF2: the wrap character inside a field is not doubled *)
KF2(e, g) == /\ e.wrap # NoWrap /\ SomeField(g, LAMBDA f : Contains(f, e.wrap))
             /\ e.outcome = "ok" /\ e.dec /\ e.text = ImplText(g, e.wrap)

JudgeExport(e) ==
  LET o == [trim |-> e.trim, wrap |-> e.wrap]
      g == Grid(book[active], o)
      p == ParseAll(e.text, e.wrap)
  IN  IF ~(e.enc \in Encodings /\ e.wrap \in WrapChars) THEN Mismatch(l, <<"gen", "options">>)
      ELSE IF e.dec /\ ~(p.recs = e.grid /\ p.wf = e.wf) THEN Mismatch(l, <<"tool", "readers disagree">>)
      ELSE IF ~BookObsOk(book, active, e.obs) THEN Mismatch(l, <<"impl", "workbook projection">>)
      ELSE IF ~(e.oenc = e.enc /\ e.otrim = e.trim /\ e.owrap = (IF e.wrap = NoWrap THEN << >> ELSE <<e.wrap>>))
           THEN Mismatch(l, <<"impl", "option getters">>)
      ELSE IF ExportOk(e, g) THEN TRUE
      ELSE IF KFOn("C20-KF3") /\ KF3(e, g) THEN KFHit("C20-KF3", l)
      ELSE IF KFOn("C20-KF1") /\ KF1(e, g) THEN KFHit("C20-KF1", l)
      ELSE IF KFOn("C20-KF2") /\ KF2(e, g) THEN KFHit("C20-KF2", l)
      ELSE Mismatch(l, <<"impl", "Export", e.outcome, e.dec, Len(e.grid), Len(g)>>)

Step(e) ==
  CASE e.a = "New" ->
         LET nb == [s \in 1..e.n |-> EmptySheet]
         IN  /\ book' = nb
             /\ active' = 1
             /\ IF e.outcome = "ok" /\ BookObsOk(nb, 1, e.obs) THEN TRUE ELSE Mismatch(l, <<"impl", "New">>)
    [] e.a = "SetCell" ->
         LET want == ExpText(e.k, e.v)
             ok   == e.outcome = "ok" /\ e.present /\ e.text = want
         IN  /\ book' = Post_BookSetCell(book, e.s, e.r, e.c, IF ok THEN want ELSE e.text)
             /\ active' = active
             /\ IF want = << >> THEN Mismatch(l, <<"gen", "empty value">>)
                ELSE IF ok THEN TRUE ELSE Mismatch(l, <<"impl", "SetCell", e.outcome>>)
    [] e.a = "RemoveCell" ->
         LET had == <<e.r, e.c>> \in DOMAIN book[e.s]
             ok  == e.outcome = "ok" /\ e.removed = had /\ ~e.present
         IN  /\ book' = Post_BookRemoveCell(book, e.s, e.r, e.c)
             /\ active' = active
             /\ IF ok THEN TRUE ELSE Mismatch(l, <<"impl", "RemoveCell", e.outcome>>)
    [] e.a = "SetActive" ->
         LET ok == e.outcome = "ok" /\ e.active = e.s
         IN  /\ active' = e.s
             /\ book' = book
             /\ IF ~(e.s \in DOMAIN book) THEN Mismatch(l, <<"gen", "sheet index">>)
                ELSE IF ok THEN TRUE ELSE Mismatch(l, <<"impl", "SetActive", e.outcome>>)
    [] e.a = "Export" ->
         /\ UNCHANGED <<book, active>>
         /\ JudgeExport(e)
    [] OTHER ->                    \* "Fatal": the driver process died or hung on this case
         /\ UNCHANGED <<book, active>>
         /\ Mismatch(l, <<"impl", e.a, e.outcome>>)

TraceInit == l = 1 /\ Init
TraceNext == /\ l <= Len(Rec) /\ l' = l + 1
             /\ Step(Ev)
             /\ UNCHANGED <<pc, opt, w, out, ps, enc, bytes, hist>>
TraceSpec == TraceInit /\ [][TraceNext]_tvars
=============================================================================
