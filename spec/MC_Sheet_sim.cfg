CONSTANTS Wide = TRUE MaxRow = 12 MaxCol = 8 Depth = 25 Family = "full" EmitReplay = TRUE
SPECIFICATION MCSpec
INVARIANTS Emit InGrid WellFormed
CHECK_DEADLOCK FALSE
