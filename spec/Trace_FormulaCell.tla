------------------------- MODULE Trace_FormulaCell -------------------------
(***************************************************************************)
(* Trace validation for C09.  One event per formula:                       *)
(*   a = "Cell": toks (the generator's token list), f (the text given to   *)
(*       Cell::set_formula), own (sheet name of the second identity path), *)
(*       items: "move" (Cell at (fc,fr), set_coordinate((tc,tr)), formula  *)
(*       read back), "far" (Worksheet::insert_new_row(p, 1) far below      *)
(*       every reference) and "other" (the formula on sheet own of a       *)
(*       three-sheet workbook, Spreadsheet::insert_new_row / .._column /   *)
(*       remove_.. applied to ANOTHER sheet at or before the formula's     *)
(*       references, none of which belongs to that sheet), each with       *)
(*       outcome and the text read back.                                   *)
(*   a = "Fatal": the case did not answer (outcome "timeout") or killed    *)
(*       the driver ("crash").                                             *)
(* Intended: the text read back is an acceptable rendering of the          *)
(* translated token list (Formula.tla).  Otherwise the exact deviant       *)
(* result of an open known finding (Trace_FormulaImpl.tla) is accepted.    *)
(***************************************************************************)
EXTENDS Trace_FormulaImpl, TraceBase

VARIABLE l
tvars == <<l>>

KFId == [brk |-> "C09-KF1", trail |-> "C09-KF2", apos |-> "C09-KF3", dq |-> "C09-KF4", arr |-> "C09-KF5",
         uplus |-> "C09-KF6", colonly |-> "C09-KF7", rowonly |-> "C09-KF8", hi |-> "C09-KF9"]
Enabled == {m \in DOMAIN KFId : KFOn(KFId[m])}

OpOf(e, it) ==
  CASE it.op = "move"  -> [k |-> "move", dc |-> it.tc - it.fc, dr |-> it.tr - it.fr]
    [] it.op = "far"   -> [k |-> "ins", own |-> e.own, edited |-> e.own, ax |-> "row", p |-> it.p, n |-> 1]
    [] it.op = "other" -> [k |-> IF it.edit = "Insert" THEN "ins" ELSE "rem", own |-> e.own, edited |-> it.edited,
                           ax |-> it.ax, p |-> it.p, n |-> it.n]
(* third identity path: a workbook-level edit of ANOTHER sheet, to which no reference of the formula belongs *)
ConcernsNone(e, it) ==
  /\ it.edited # e.own /\ it.third # it.edited /\ it.third # e.own
  /\ \A i \in DOMAIN e.toks : e.toks[i].k = "ref" =>
        (Cd!Concat(e.toks[i].qc) # it.edited /\ Dbl(e.toks[i].qc, "'") # it.edited)
InGridRC(c, r) == c >= 1 /\ c <= MaxCol /\ r >= 1 /\ r <= MaxRow
ItemGenOk(e, it) ==
  IF it.op = "move" THEN InGridRC(it.fc, it.fr) /\ InGridRC(it.tc, it.tr)
  ELSE IF it.op = "other"
  THEN /\ InGridRC(it.c, it.r) /\ ConcernsNone(e, it) /\ it.edit \in {"Insert", "Remove"} /\ it.ax \in Axes
       /\ it.p >= 1 /\ it.n >= 1 /\ it.p + it.n - 1 <= Lines(it.ax)
  ELSE /\ InGridRC(it.c, it.r) /\ it.p > it.r /\ it.p <= MaxRow
       /\ it.p > FExtent(e.toks, e.own, e.own, "row")           \* the insert concerns no reference
GenOk(e) == /\ InClassFor(e.toks, Enabled)
            /\ e.f = Render(e.toks)
            /\ \A j \in DOMAIN e.items : ItemGenOk(e, e.items[j])

ItemIntended(e, it) == it.outcome = "ok" /\ Accepts(WantF(e.toks, OpOf(e, it)), it.out)
ItemKnown(e, it) == LET R == Impl(e.toks, OpOf(e, it), Enabled)
                    IN /\ R.outcome = it.outcome /\ (R.outcome = "ok" => it.out = ImplRender(R.f))
                       /\ Hits(e.toks, OpOf(e, it), Enabled) # {}         \* explained by at least one open finding
ItemOk(e, it) == ItemIntended(e, it) \/ ItemKnown(e, it)

Judge(e) ==
  IF e.a = "Fatal"
  THEN IF e.outcome = "timeout" /\ Impl(e.toks, [k |-> "move", dc |-> 0, dr |-> 0], Enabled).outcome = "timeout"
       THEN KFHit(KFId["brk"], l)
       ELSE Mismatch(l, <<"impl", "fatal", e.outcome, Render(e.toks)>>)
  ELSE IF ~GenOk(e) THEN Mismatch(l, <<"gen", e.f>>)
  ELSE LET bad == {j \in DOMAIN e.items : ~ItemOk(e, e.items[j])}
           kf  == {j \in DOMAIN e.items : ~ItemIntended(e, e.items[j]) /\ ItemKnown(e, e.items[j])}
       IN /\ IF bad = {} THEN TRUE
             ELSE LET it == e.items[MinOf(bad)]
                      R  == Impl(e.toks, OpOf(e, it), Enabled)
                  IN Mismatch(l, <<"impl", e.f, it, "expected", RenderMin(WantF(e.toks, OpOf(e, it))),
                                   "known-deviation model", R.outcome, ImplRender(R.f)>>)
          /\ \A j \in kf : \A m \in Hits(e.toks, OpOf(e, e.items[j]), Enabled) : KFHit(KFId[m], l)

Ev == Rec[l]
TraceInit == l = 1
TraceNext == l <= Len(Rec) /\ l' = l + 1 /\ Judge(Ev)
TraceSpec == TraceInit /\ [][TraceNext]_tvars
=============================================================================
