CONSTANTS
  Kinds = {"sheet1", "workbook", "revisions"}
  Passwords = {"p1", "p2"}
  Salts = {"s1", "s2", "s3"}
  LegacyVals = {"CC1A"}
  SpecAlg = "SHA-512"
  SpecSpin = 0
  MaxSets = 2
  MaxHist = 4
  NoHash <- MCNoHash
SPECIFICATION Spec
INVARIANTS Emit
CHECK_DEADLOCK FALSE
