CONSTANTS
  ChannelNames = {"sheet_name", "defined_name", "hyperlink_target", "hyperlink_location", "hyperlink_tooltip", "table_name", "table_column", "numfmt_code", "font_name", "dv_prompt", "custom_property_name", "cell_text", "formula_text", "comment_author", "comment_text", "header_footer", "doc_property", "defined_name_address", "cached_string"}
  IdReaders = {}
  IdWriters = {}
  MaxLen = 3
  MaxGen = 3
  XChannels = {"cell_text", "cached_string"}
  XEndBug = FALSE
SPECIFICATION CSpec
INVARIANTS DriftFree WrittenSafe Inverse
CHECK_DEADLOCK FALSE
