------------------------------- MODULE Media -------------------------------
(***************************************************************************)
(* Extension domain X03: the life cycle of images and charts.              *)
(*                                                                         *)
(* What a user of the library relies on (the properties of this domain):   *)
(*                                                                         *)
(* P1  Save;Load is the identity on drawing objects.  After writing a      *)
(*     workbook and reading the file back (eagerly or lazily) every sheet  *)
(*     shows exactly the pictures and charts it had, in the same order per *)
(*     kind, with the same anchor (from / to cell and offsets), the same   *)
(*     picture bytes, the same chart kind, series formulas and title text. *)
(*     Saving never panics, whatever public edits preceded it.             *)
(* P2  The written package is valid as far as drawings are concerned and   *)
(*     an independent reader sees the model: every relationship target     *)
(*     exists, every relationship id used in a sheet or drawing part is    *)
(*     defined there with the right kind, content types cover every part   *)
(*     (drawing, chart and image parts with a type of their family), no    *)
(*     drawing / chart / image part is left unreferenced, no drawing part  *)
(*     serves two sheets and no chart part two frames; and for every sheet *)
(*     that is written from the model, following the relationships from    *)
(*     the sheet yields the sheet's pictures and charts: each picture      *)
(*     resolves to ITS OWN bytes (whether equal bytes are stored once or   *)
(*     several times is not prescribed, nor are part names).  A series     *)
(*     formula names its sheet in quotes where the formula grammar of      *)
(*     ECMA-376 (18.17) requires them.                                     *)
(* P3  An operation on one sheet (add / remove / move / replace an object, *)
(*     insert / remove rows or columns, rename) and removing or adding a   *)
(*     sheet leave the objects of every other sheet untouched.             *)
(* P4  Structural edits move anchors like cells: inserting n lines before  *)
(*     line p moves every marker at a line >= p by n; removing the band    *)
(*     p..p+n-1 moves every marker below the band up by n and leaves the   *)
(*     markers above it alone.  An object with a marker INSIDE the removed *)
(*     band (undocumented): it is either removed with its band, or kept    *)
(*     with that marker somewhere in 1..its old line and every other       *)
(*     marker moved as above; its content is unchanged, the other objects  *)
(*     and their order are unaffected, no panic.  Remove undoes insert.    *)
(* P5  A sheet that was never materialised after a lazy load is written    *)
(*     back with its drawing part, chart parts and pictures byte-identical *)
(*     and reached through the same relationship ids.                      *)
(*                                                                         *)
(* State: a sequence of sheets [name, imgs, charts, oth, raw];             *)
(*   imgs   sequence of [r1, c1, r2, c2, two, off, ext, nm, nk, dg]:       *)
(*          anchor                                                         *)
(*          cells (1-based; r2 = c2 = 0, two = FALSE for a one-cell        *)
(*          anchor), off = <<colOff, rowOff, colOff2, rowOff2>>, ext =     *)
(*          <<cx, cy>> size of a one-cell anchor in EMU (new_image: the    *)
(*          picture's pixel size at 9525 EMU per pixel), nm = file name of *)
(*          the picture, dg = token of its bytes; nk = "hash" | "ext" | "" *)
(*          classifies nm (only used by known-finding deviations)          *)
(*   charts sequence of [r1, c1, r2, c2, off, ct, ser, refs, qn, ti, tt]:  *)
(*          ct = kind, ser = series formulas (sheet names unquoted: how a  *)
(*          name is quoted is form, judged on the file), refs = the sheet  *)
(*          names they mention, ti = title text; qn = how many of the refs *)
(*          need quotes but hold no blank, tt = the title with every run   *)
(*          trimmed (both only used by known-finding deviations)           *)
(*   oth    number of other anchors (shapes, OLE frames): only counted     *)
(*   raw    the sheet has not been materialised since a lazy load          *)
(* Every operation is sh' = Post(sh, args) with Post a plain operator.     *)
(* No operator quantifies over the grid.                                   *)
(***************************************************************************)
EXTENDS Grid, Naturals, Sequences, FiniteSets, TLC

CONSTANTS MaxRow, MaxCol

Lines(ax) == IF ax = "row" THEN MaxRow ELSE MaxCol
Axes == {"row", "col"}

(* ---- anchors (the same operators serve pictures and charts: both have r1, c1, r2, c2) ---------- *)
Lo(x, ax) == IF ax = "row" THEN x.r1 ELSE x.c1
Hi(x, ax) == IF ax = "row" THEN x.r2 ELSE x.c2            \* 0: no "to" marker
InsM(m, p, n) == IF m = 0 THEN 0 ELSE InsIdx(m, p, n)
RemM(m, p, n) == IF m = 0 THEN 0 ELSE RemIdx(m, p, n)
InsObj(x, ax, p, n) ==
  IF ax = "row" THEN [x EXCEPT !.r1 = InsM(@, p, n), !.r2 = InsM(@, p, n)]
                ELSE [x EXCEPT !.c1 = InsM(@, p, n), !.c2 = InsM(@, p, n)]
RemObj(x, ax, p, n) ==                                    \* only meaningful for untouched objects
  IF ax = "row" THEN [x EXCEPT !.r1 = RemM(@, p, n), !.r2 = RemM(@, p, n)]
                ELSE [x EXCEPT !.c1 = RemM(@, p, n), !.c2 = RemM(@, p, n)]
Touched(x, ax, p, n) == InBand(Lo(x, ax), p, n) \/ (Hi(x, ax) # 0 /\ InBand(Hi(x, ax), p, n))
(* a touched object that is kept: the marker inside the band ends somewhere in 1..old line *)
MarkOK(m, m2, p, n) == IF m = 0 THEN m2 = 0
                       ELSE IF InBand(m, p, n) THEN m2 >= 1 /\ m2 <= m ELSE m2 = RemIdx(m, p, n)
KeptOK(x, y, ax, p, n) ==
  /\ MarkOK(Lo(x, ax), Lo(y, ax), p, n) /\ MarkOK(Hi(x, ax), Hi(y, ax), p, n)
  /\ y = (IF ax = "row" THEN [x EXCEPT !.r1 = y.r1, !.r2 = y.r2] ELSE [x EXCEPT !.c1 = y.c1, !.c2 = y.c2])
(* canonical kept form used by the bounded model: a marker inside the band goes to the band's first line *)
ClipM(m, p, n) == IF m = 0 THEN 0 ELSE IF InBand(m, p, n) THEN p ELSE RemIdx(m, p, n)
ClipObj(x, ax, p, n) ==
  IF ax = "row" THEN [x EXCEPT !.r1 = ClipM(@, p, n), !.r2 = ClipM(@, p, n)]
                ELSE [x EXCEPT !.c1 = ClipM(@, p, n), !.c2 = ClipM(@, p, n)]

(* does observed sequence o arise from q by removing the band?  (untouched objects exactly, in order; touched ones
   dropped or kept) *)
RECURSIVE RemSeqOK(_, _, _, _, _)
RemSeqOK(q, o, ax, p, n) ==
  IF q = <<>> THEN o = <<>>
  ELSE LET x == Head(q) IN
       IF ~Touched(x, ax, p, n)
       THEN o # <<>> /\ Head(o) = RemObj(x, ax, p, n) /\ RemSeqOK(Tail(q), Tail(o), ax, p, n)
       ELSE \/ RemSeqOK(Tail(q), o, ax, p, n)
            \/ (o # <<>> /\ KeptOK(x, Head(o), ax, p, n) /\ RemSeqOK(Tail(q), Tail(o), ax, p, n))

(* the removal the bounded model performs: `keep` = which touched objects survive (clipped) *)
RECURSIVE RemSeq(_, _, _, _, _, _)
RemSeq(q, keep, k, ax, p, n) ==       \* k = index of Head(q) in the original sequence
  IF q = <<>> THEN <<>>
  ELSE LET x == Head(q)
           rest == RemSeq(Tail(q), keep, k + 1, ax, p, n)
       IN IF ~Touched(x, ax, p, n) THEN <<RemObj(x, ax, p, n)>> \o rest
          ELSE IF k \in keep THEN <<ClipObj(x, ax, p, n)>> \o rest ELSE rest

SeqMap(q, Op(_)) == [i \in DOMAIN q |-> Op(q[i])]
RemoveAt(q, i) == [j \in 1..(Len(q) - 1) |-> IF j < i THEN q[j] ELSE q[j + 1]]

(* ---- sheets ---------------------------------------------------------------------------------------- *)
Touch(S) == [S EXCEPT !.raw = FALSE]
AddImageS(S, im)        == [Touch(S) EXCEPT !.imgs = Append(@, im)]
AddChartS(S, ch)        == [Touch(S) EXCEPT !.charts = Append(@, ch)]
RemoveImageS(S, i)      == [Touch(S) EXCEPT !.imgs = RemoveAt(@, i)]
RemoveChartS(S, i)      == [Touch(S) EXCEPT !.charts = RemoveAt(@, i)]
(* change_image = new_image at the same from-marker: a one-cell anchor holding the new bytes *)
ChangeImageS(S, i, nm, nk, dg, ext) ==
  [Touch(S) EXCEPT !.imgs[i] = [S.imgs[i] EXCEPT !.nm = nm, !.nk = nk, !.dg = dg, !.ext = ext, !.r2 = 0, !.c2 = 0, !.two = FALSE,
                                                 !.off = <<S.imgs[i].off[1], S.imgs[i].off[2], 0, 0>>]]
MoveImageS(S, i, r, c)  == [Touch(S) EXCEPT !.imgs[i] = [@ EXCEPT !.r1 = r, !.c1 = c]]
MoveChartS(S, i, g)     == [Touch(S) EXCEPT !.charts[i] = [@ EXCEPT !.r1 = g.r1, !.c1 = g.c1, !.r2 = g.r2, !.c2 = g.c2]]
InsS(S, ax, p, n) ==
  [Touch(S) EXCEPT !.imgs = [i \in DOMAIN @ |-> InsObj(@[i], ax, p, n)],
                   !.charts = [i \in DOMAIN @ |-> InsObj(@[i], ax, p, n)]]
RemS(S, ki, kc, ax, p, n) ==
  [Touch(S) EXCEPT !.imgs = RemSeq(@, ki, 1, ax, p, n), !.charts = RemSeq(@, kc, 1, ax, p, n)]
RemSOK(S, T, ax, p, n) ==          \* T is an allowed outcome of removing the band from S
  /\ T = [Touch(S) EXCEPT !.imgs = T.imgs, !.charts = T.charts]
  /\ RemSeqOK(S.imgs, T.imgs, ax, p, n) /\ RemSeqOK(S.charts, T.charts, ax, p, n)

Max0(T) == IF T = {} THEN 0 ELSE CHOOSE m \in T : \A y \in T : y <= m
Extent(S, ax) == Max0({Lo(S.imgs[i], ax) : i \in DOMAIN S.imgs} \cup {Hi(S.imgs[i], ax) : i \in DOMAIN S.imgs} \cup
                      {Lo(S.charts[i], ax) : i \in DOMAIN S.charts} \cup {Hi(S.charts[i], ax) : i \in DOMAIN S.charts})
CanInsert(S, ax, p, n) == p >= 1 /\ n >= 1 /\ p <= Lines(ax) /\ Extent(S, ax) + n <= Lines(ax)
CanRemove(S, ax, p, n) == p >= 1 /\ n >= 1 /\ p + n - 1 <= Lines(ax)
CellOK(r, c) == r >= 1 /\ r <= MaxRow /\ c >= 1 /\ c <= MaxCol
RectIn(g) == CellOK(g.r1, g.c1) /\ CellOK(g.r2, g.c2) /\ g.r1 <= g.r2 /\ g.c1 <= g.c2

NewSheet(name) == [name |-> name, imgs |-> <<>>, charts |-> <<>>, oth |-> 0, raw |-> FALSE]
Names(W) == {W[s].name : s \in DOMAIN W}
AllRefs(W) == UNION {UNION {{W[s].charts[i].refs[j] : j \in DOMAIN W[s].charts[i].refs} : i \in DOMAIN W[s].charts} : s \in DOMAIN W}
IndexOf(W, name) == CHOOSE s \in DOMAIN W : W[s].name = name
AnyRaw(W) == \E s \in DOMAIN W : W[s].raw
MaterialiseAll(W) == [s \in DOMAIN W |-> Touch(W[s])]

(* ---- saving and loading ------------------------------------------------------------------------------ *)
(* The writer stores a picture's bytes in a media part chosen by Key; raw sheets are written first, from the
   loaded file; the first writer of a key wins.  mode "content": the key identifies the bytes (intended: any
   scheme where different bytes get different parts); mode "name": the key is the picture's file name only. *)
Key(im, mode) == IF mode = "content" THEN <<im.nm, im.dg>> ELSE <<im.nm, "">>
RECURSIVE Flat(_)
Flat(W) == IF W = <<>> THEN <<>> ELSE Head(W).imgs \o Flat(Tail(W))
WriteOrder(W) == Flat(SelectSeq(W, LAMBDA S : S.raw)) \o Flat(SelectSeq(W, LAMBDA S : ~S.raw))
Stored(W, k, mode) ==
  LET F == WriteOrder(W)
      first == CHOOSE j \in DOMAIN F : Key(F[j], mode) = k /\ \A i \in DOMAIN F : Key(F[i], mode) = k => j <= i
  IN F[first].dg
(* what a reader of the written file sees (raw flags aside) *)
Written(W, mode) ==
  [s \in DOMAIN W |-> [W[s] EXCEPT !.imgs = [i \in DOMAIN W[s].imgs |->
                                              [W[s].imgs[i] EXCEPT !.dg = Stored(W, Key(W[s].imgs[i], mode), mode)]]]]
Loaded(W, lazy) == [s \in DOMAIN W |-> [W[s] EXCEPT !.raw = lazy]]
(* saving: "tolerant" never fails; "strict" fails when a materialised sheet has a chart whose series mention a
   sheet that does not exist *)
Dangling(W) == \E s \in DOMAIN W : ~W[s].raw /\ \E i \in DOMAIN W[s].charts :
                  \E j \in DOMAIN W[s].charts[i].refs : W[s].charts[i].refs[j] \notin Names(W)
SaveWorks(W, cache) == cache = "tolerant" \/ ~Dangling(W)
(* a materialised sheet whose chart takes its data from a still-raw sheet cannot be saved (finding C11-KF3 of the
   lazy-loading property): out of this domain's contract *)
RawRefs(W) == \E s \in DOMAIN W : ~W[s].raw /\ \E i \in DOMAIN W[s].charts : \E j \in DOMAIN W[s].charts[i].refs :
                 LET r == W[s].charts[i].refs[j] IN r \in Names(W) /\ W[IndexOf(W, r)].raw
(* some chart names a sheet that needs quotes although it holds no blank (a raw sheet's chart part is a copy of
   what an earlier save wrote) *)
QuoteNeeded(W) == \E s \in DOMAIN W : \E i \in DOMAIN W[s].charts : W[s].charts[i].qn > 0
(* some picture has a file name of kind k; the pictures of materialised sheets with a '#' in their name, as a reader
   that resolves relationship targets as URI references finds them: unresolved *)
HasNameKind(W, k) == \E s \in DOMAIN W : \E i \in DOMAIN W[s].imgs : W[s].imgs[i].nk = k
Unresolved(W) == [s \in DOMAIN W |-> [W[s] EXCEPT !.imgs = [i \in DOMAIN W[s].imgs |->
                    IF W[s].imgs[i].nk = "hash" THEN [W[s].imgs[i] EXCEPT !.dg = "none"] ELSE W[s].imgs[i]]]]
(* title deviation: every title becomes its trimmed form *)
Trimmed(W) == [s \in DOMAIN W |-> [W[s] EXCEPT !.charts = [i \in DOMAIN W[s].charts |->
                                                             [W[s].charts[i] EXCEPT !.ti = W[s].charts[i].tt]]]]

---------------------------------------------------------------------------
CONSTANTS MediaKey,      \* "content" (intended) | "name" (deviant design, must be refuted)
          ChartCache     \* "tolerant" (intended) | "strict" (deviant design, must be refuted)

VARIABLES sh,      \* the workbook: sequence of sheets
          last     \* the last operation [op, s]; s = 0 for workbook-level operations
vars == <<sh, last>>

Op(o, s) == [op |-> o, s |-> s]
OnSheet(s, T, o) == sh' = [sh EXCEPT ![s] = T] /\ last' = Op(o, s)

AddImage(s, im)   == CellOK(im.r1, im.c1) /\ OnSheet(s, AddImageS(sh[s], im), "addimage")
AddChart(s, ch)   == RectIn(ch) /\ OnSheet(s, AddChartS(sh[s], ch), "addchart")
RemoveImage(s, i) == i \in DOMAIN sh[s].imgs /\ OnSheet(s, RemoveImageS(sh[s], i), "rmimage")
RemoveChart(s, i) == i \in DOMAIN sh[s].charts /\ OnSheet(s, RemoveChartS(sh[s], i), "rmchart")
ChangeImage(s, i, nm, nk, dg, ext) == i \in DOMAIN sh[s].imgs /\ OnSheet(s, ChangeImageS(sh[s], i, nm, nk, dg, ext), "chimage")
MoveImage(s, i, r, c) == i \in DOMAIN sh[s].imgs /\ CellOK(r, c) /\ OnSheet(s, MoveImageS(sh[s], i, r, c), "mvimage")
MoveChart(s, i, g) == i \in DOMAIN sh[s].charts /\ RectIn(g) /\ OnSheet(s, MoveChartS(sh[s], i, g), "mvchart")
(* structural edits on a sheet no chart takes its data from (moving the data is the matter of C08); the
   workbook-level entry points materialise every sheet *)
InsertLines(s, ax, p, n, wb) ==
  /\ CanInsert(sh[s], ax, p, n) /\ sh[s].name \notin AllRefs(sh)
  /\ sh' = [(IF wb THEN MaterialiseAll(sh) ELSE sh) EXCEPT ![s] = InsS(sh[s], ax, p, n)]
  /\ last' = Op("ins", s)
RemoveLines(s, ax, p, n, wb, ki, kc) ==
  /\ CanRemove(sh[s], ax, p, n) /\ sh[s].name \notin AllRefs(sh)
  /\ sh' = [(IF wb THEN MaterialiseAll(sh) ELSE sh) EXCEPT ![s] = RemS(sh[s], ki, kc, ax, p, n)]
  /\ last' = Op("rem", s)
AddSheet(name)    == name \notin Names(sh) /\ sh' = Append(sh, NewSheet(name)) /\ last' = Op("addsheet", 0)
RemoveSheet(s)    == Len(sh) > 1 /\ sh' = RemoveAt(sh, s) /\ last' = Op("rmsheet", s)
RenameSheet(s, name) == name \notin Names(sh) /\ sh' = [sh EXCEPT ![s].name = name] /\ last' = Op("rename", s)
ReadSheet(s)      == OnSheet(s, Touch(sh[s]), "read")
(* write the workbook and read the file back *)
Reload(lazy) ==
  /\ ~RawRefs(sh)
  /\ sh' = IF SaveWorks(sh, ChartCache) THEN Loaded(Written(sh, MediaKey), lazy) ELSE sh
  /\ last' = Op("reload", 0)

(* ---- properties ---------------------------------------------------------------------------------------- *)
ObjInGrid(x) == CellOK(x.r1, x.c1) /\ (x.r2 = 0 \/ CellOK(x.r2, x.c2))
InGrid == \A s \in DOMAIN sh : (\A i \in DOMAIN sh[s].imgs : ObjInGrid(sh[s].imgs[i])) /\
                               (\A i \in DOMAIN sh[s].charts : ObjInGrid(sh[s].charts[i]))
NamesUnique == \A s, t \in DOMAIN sh : sh[s].name = sh[t].name => s = t
(* P1 + P2 at the level of the model: what the written file holds, and what loading it yields, is the workbook *)
RoundTrip == Written(sh, MediaKey) = sh
SaveAlwaysWorks == ~RawRefs(sh) => SaveWorks(sh, ChartCache)
(* P3: every operation on a sheet leaves the drawing objects of every other sheet alone; operations on the sheet
   list keep the surviving sheets (the raw flag aside: workbook-level entry points materialise) *)
Objs(S) == [S EXCEPT !.raw = FALSE]
OthersUntouched ==
  [][\/ (last'.op \in {"rmsheet"} /\ \A t \in DOMAIN sh' : Objs(sh'[t]) = Objs(sh[IF t < last'.s THEN t ELSE t + 1]))
     \/ (last'.op = "addsheet" /\ \A t \in DOMAIN sh : sh'[t] = sh[t])
     \/ (last'.op = "reload")
     \/ (last'.op \notin {"rmsheet", "addsheet", "reload"} /\ DOMAIN sh' = DOMAIN sh /\
         \A t \in DOMAIN sh : t # last'.s => Objs(sh'[t]) = Objs(sh[t]))]_vars
(* P5 at the level of the model: a sheet that stays raw across a step is unchanged *)
RawKept == [][\A t \in DOMAIN sh : (t \in DOMAIN sh' /\ sh[t].raw /\ sh'[t].raw /\ last'.op \notin {"rmsheet", "reload"}) => Objs(sh'[t]).imgs = Objs(sh[t]).imgs /\ sh'[t].charts = sh[t].charts /\ sh'[t].oth = sh[t].oth]_vars
(* P4: remove undoes insert, for every in-range (ax, p, n) *)
RemoveUndoesInsertAt(S, ax, p, n) == CanInsert(S, ax, p, n) => RemS(InsS(S, ax, p, n), {}, {}, ax, p, n) = Touch(S)
(* the canonical removals of the model are allowed outcomes *)
ModelRemovalsAllowedAt(S, ax, p, n) ==
  \A ki \in SUBSET DOMAIN S.imgs, kc \in SUBSET DOMAIN S.charts : RemSOK(S, RemS(S, ki, kc, ax, p, n), ax, p, n)
=============================================================================
