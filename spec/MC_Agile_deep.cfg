CONSTANTS
  Passwords = {"p1", "p2"}
  Sizes = {0, 17, 4096, 8193}
  MaxSaves = 3
  DoTamper = TRUE
  DoEmit = FALSE
SPECIFICATION Spec
INVARIANTS TypeOK Correct LenDeclared WrongPwFails HmacCoversStream Layout SegmentKeysDistinct Fresh
CHECK_DEADLOCK FALSE
