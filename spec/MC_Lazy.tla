------------------------------ MODULE MC_Lazy ------------------------------
(* Bounded instance of Lazy.tla: files of three sheets, a lazily opened workbook next to its eagerly  *)
(* opened twin, histories of Depth operations with at most MaxEdits edits, one new sheet, one removal *)
(* and one rename.                                                                                     *)
EXTENDS Lazy, Json

CONSTANTS Home, TabNo, Chart,   \* the design that is checked (see Lazy.tla)
          Perm,                 \* TRUE: also files whose sheet parts are not numbered in workbook order
          Depth, MaxEdits,
          Shapes,               \* "all": every combination of file facts; "rich": a few files a driver can generate
          Wide,                 \* TRUE: labels / parameters drawn with RandomElement (replay and simulation runs)
          EmitReplay            \* TRUE: print one REPLAY line per behaviour that ends in a save

VARIABLES orig, sheets, tw, saved, steps, hist
mcvars == <<orig, sheets, tw, saved, steps, hist>>

SheetNames == <<"A", "B", "C">>
Tab(n)     == [no |-> n, name |-> "T" \o ToString(n)]
(* a file: which sheets have a relationship part, which have a table (a table implies a relationship part),
   whether the chart of sheet 3 takes its data from sheet "A", and the part numbers in workbook order *)
FileOf(rl, tb, rf, pn) ==
  [i \in 1..3 |-> [name |-> SheetNames[i], pno |-> pn[i], rels |-> (rl[i] \/ tb[i] \/ (i = 3 /\ rf)),
                   tabs |-> IF tb[i] THEN <<Tab(pn[i])>> ELSE <<>>,
                   refs |-> IF i = 3 /\ rf THEN {"A"} ELSE {}]]
Bool3 == [1..3 -> BOOLEAN]
AllFiles  == {FileOf(rl, tb, rf, pn) : rl \in Bool3, tb \in {<<FALSE, FALSE, FALSE>>, <<TRUE, TRUE, FALSE>>, <<FALSE, TRUE, TRUE>>},
                                       rf \in BOOLEAN, pn \in {<<1, 2, 3>>} \cup (IF Perm THEN {<<2, 1, 3>>} ELSE {})}
RichFiles == {FileOf(<<TRUE, TRUE, FALSE>>, <<TRUE, TRUE, FALSE>>, FALSE, <<1, 2, 3>>),
              FileOf(<<FALSE, TRUE, TRUE>>, <<FALSE, FALSE, TRUE>>, FALSE, <<1, 2, 3>>),
              FileOf(<<TRUE, FALSE, TRUE>>, <<FALSE, FALSE, FALSE>>, FALSE, <<1, 2, 3>>),
              FileOf(<<TRUE, TRUE, TRUE>>, <<FALSE, TRUE, FALSE>>, FALSE, <<2, 1, 3>>)}
Files == IF Shapes = "all" THEN AllFiles ELSE RichFiles

Opened(og, ld) == [i \in DOMAIN og |-> [name |-> og[i].name, o |-> i, loaded |-> ld, marks |-> <<>>]]

MCInit ==
  /\ orig \in Files
  /\ sheets = Opened(orig, FALSE)
  /\ tw = Opened(orig, TRUE)
  /\ saved = "none"
  /\ steps = 0
  /\ hist = <<[a |-> "Open", orig |-> orig]>>

Pick(S) == IF Wide THEN {RandomElement(S)} ELSE S
Marks == {[t |-> "s", k |-> 1, v |-> "M1"], [t |-> "b", k |-> 2, v |-> "M2"], [t |-> "c", k |-> 1, v |-> "M3"],
          [t |-> "t", k |-> 1, v |-> "M4"], [t |-> "t", k |-> 2, v |-> "M5"]}
NEdits  == LET RECURSIVE Sum(_)
               Sum(p) == IF p > Len(sheets) THEN 0 ELSE Len(sheets[p].marks) + Sum(p + 1)
           IN Sum(1)
HasNew  == \E p \in DOMAIN sheets : sheets[p].o = 0
Removed == Len(sheets) < Len(orig) + (IF HasNew THEN 1 ELSE 0)
Renamed == \E p \in DOMAIN sheets : sheets[p].name = "R1"

Log(rec) == steps < Depth /\ hist' = Append(hist, rec) /\ steps' = steps + 1 /\ UNCHANGED orig
Both(F(_)) == sheets' = F(sheets) /\ tw' = F(tw) /\ saved' = "none"

Read(i) ==
  /\ Both(LAMBDA S : PostRead(S, i))
  /\ \E lb \in Pick({"ReadSheet", "ReadByName", "GetMut", "GetByNameMut"}) :
        Log([a |-> lb, i |-> i, name |-> sheets[i].name])
ReadAll ==
  /\ Both(PostReadAll)
  /\ \E lb \in Pick({"ReadAll", "GetCollMut", "WbInsertRows", "WbRemoveRows"}) :
        Log([a |-> lb, i |-> 1, name |-> sheets[1].name])
Edit(i, m) ==
  /\ NEdits < MaxEdits /\ SlotFree(sheets[i], m)
  /\ Both(LAMBDA S : PostEdit(S, i, m))
  /\ \E via \in Pick({"idx", "name"}) :
        Log([a |-> "Edit", i |-> i, name |-> sheets[i].name, via |-> via, t |-> m.t, k |-> m.k, v |-> m.v])
NewSheet ==
  /\ ~HasNew
  /\ Both(LAMBDA S : PostNew(S, "N1"))
  /\ Log([a |-> "NewSheet", name |-> "N1"])
RemoveSheet(i) ==
  /\ ~Removed /\ Len(sheets) > 1
  /\ Both(LAMBDA S : PostRemove(S, i))
  /\ Log([a |-> "RemoveSheet", i |-> i])
Rename(i) ==
  /\ ~Renamed
  /\ Both(LAMBDA S : PostRename(S, i, "R1"))
  /\ Log([a |-> "Rename", i |-> i, name |-> "R1"])
Save ==
  /\ saved' = SaveOutcome(orig, sheets, Chart)
  /\ UNCHANGED <<sheets, tw>>
  /\ Log([a |-> "Save"])

ReadAny   == \E i \in DOMAIN sheets : Read(i)
EditAny   == \E i \in DOMAIN sheets, m \in Marks : Edit(i, m)
RemoveAny == \E i \in DOMAIN sheets : RemoveSheet(i)
RenameAny == \E i \in DOMAIN sheets : Rename(i)
MCNext == ReadAny \/ ReadAll \/ EditAny \/ NewSheet \/ RemoveAny \/ RenameAny \/ Save
MCSpec == MCInit /\ [][MCNext]_mcvars
StateView == <<orig, sheets, tw, saved, steps>>
(* without the step counter: with Depth large the run covers every history within the operation bounds *)
OpenView  == <<orig, sheets, tw>>

(* ---- the properties --------------------------------------------------------------------------------- *)
(* a sheet, once accessed, shows exactly what the eagerly opened workbook shows *)
LazyEqEager == /\ Len(sheets) = Len(tw)
               /\ \A p \in DOMAIN sheets : /\ sheets[p].name = tw[p].name
                                           /\ (sheets[p].loaded => View(sheets[p]) = View(tw[p]))
(* in every reachable state a save would give a valid file with the unedited sheets kept and the edits present,
   and the same decoded content as a save of the eager twin *)
ValidFile    == PackageOK(orig, sheets, Home, TabNo)
Kept         == UneditedKept(orig, sheets, Home, TabNo)
Present      == EditsPresent(orig, sheets, Home, TabNo)
SavedLikeEager == LET P == Pkg(orig, sheets, Home, TabNo)
                      Q == Pkg(orig, tw, Home, TabNo)
                  IN \A p \in DOMAIN sheets : Dec(P, p) = Dec(Q, p)
SaveWorks    == SaveTotal(orig, sheets, Chart)
(* the same four, with the package computed once per state (used by the large configurations) *)
SaveProps    == LET P == Pkg(orig, sheets, Home, TabNo)
                    Q == Pkg(orig, tw, Home, TabNo)
                IN /\ PackageOKP(orig, sheets, P) /\ UneditedKeptP(orig, sheets, P) /\ EditsPresentP(orig, sheets, P)
                   /\ \A p \in DOMAIN sheets : Dec(P, p) = Dec(Q, p)
(* accessing never un-loads, never touches marks *)
AccessMonotone == [][\A p \in DOMAIN sheets : (p \in DOMAIN sheets' /\ Len(sheets') = Len(sheets) /\ sheets[p].loaded)
                                               => sheets'[p].loaded]_mcvars

(* every behaviour of length Depth is a replay (the driver's script ends every history with a save) *)
Emit == (EmitReplay /\ steps = Depth) => PrintT(<<"REPLAY", ToJson(hist)>>)
=============================================================================
