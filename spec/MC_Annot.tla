------------------------------ MODULE MC_Annot ------------------------------
(* Bounded instance of Annot.tla: at most MaxSheets sheets, small pools for every annotation kind,           *)
(* histories of Depth operations.  The enumeration orders of a sheet's hyperlinks are derived from "seeds"   *)
(* (a seed is an order of the whole cell pool, an enumeration is its restriction to the cells that carry a   *)
(* link - what iterating a hash map with that seed would give).                                             *)
EXTENDS Annot, Json

CONSTANTS Depth,        \* length of the histories explored
          MaxSheets,
          Pairing,      \* "one": both enumerations of a save use the same seed (intended); "two": independent seeds (deviant)
          Family,       \* "authors": only comments, on one sheet, by a pool of four mixed-case authors;
                        \* "links": sheet list, links, comments, names, merges; "rest": the other kinds; "all": everything;
                        \* "links1": as "links", starting from one sheet only (deeper histories)
          Wide,         \* TRUE: draw parameters at random (simulation)
          EmitReplay    \* TRUE: print one REPLAY line per behaviour of length Depth that ends with a save

VARIABLES steps, hist
mcvars == <<wb, last, steps, hist>>

SheetNames == {"S1", "My & Sheet", "O'Brien"}
CellPool   == <<"A1", "B2", "C3">>
ExtUrls    == {"http://a.example/?x=1&y=2", "http://b.example/"}
LocUrls    == {"'My & Sheet'!A1"}
(* Family "authors": three comments on one sheet by authors whose case-insensitive order differs from their byte     *)
(* order and two of which differ in case only; TLC enumerates every order of the author table (AuSeeds)               *)
AU3 == Family = "authors"
AuthorPool == IF AU3 THEN <<"Alice", "bob", "Bob", "Carol">>
              ELSE <<"Ann", " B&b <c>\t">>            \* the second one with blanks at both ends
CommentRC  == IF AU3 THEN {<<2, 2>>, <<7, 3>>, <<4, 1>>} ELSE {<<2, 2>>, <<7, 3>>}
Run(t, b) == [t |-> t, b |-> b]
(* comment texts as run lists: one plain run; the layout applications write (bold "Author:" run, then a run that   *)
(* starts with a line feed and ends with a blank and a tab, then a run of white space only)                         *)
Texts      == IF AU3 THEN { <<Run("note", FALSE)>> }
              ELSE { <<Run("x & y <z>", FALSE)>>,
                     <<Run("Ann:", TRUE), Run("\nplease check this value \t", FALSE), Run(" ", FALSE)>> }
Tips       == {"", " tip & <more> "}
Codes      == {"Sheet1", "Tabelle_1"}
MergePool  == {"A1:B2", "D4:E9"}
N(nm, loc, ref, addr, hid) == [name |-> nm, local |-> loc, ref |-> ref, addr |-> addr, hidden |-> hid]
(* the same name in several scopes (global, local to sheet 1, local to sheet 2), and names that differ only in case *)
NamePool   == { N("Glob", -1, "S1", "'S1'!$A$1:$B$2", FALSE), N("GLOB", 1, "S1", "'S1'!$C$3", FALSE),
                N("Area", 0, "My & Sheet", "'My & Sheet'!$B$2", FALSE), N("Area", 1, "S1", "'S1'!$D$4", FALSE),
                N("Area", -1, "", "42", FALSE),
                N("Other", -1, "My & Sheet", "'My & Sheet'!$A$1", TRUE), N("Gone", -1, "Zed", "'Zed'!$A$1", FALSE) }
Dv(sq, ty, op, f1, f2, pt, pr) == [sqref |-> sq, type |-> ty, op |-> op, blank |-> TRUE, showin |-> TRUE, showerr |-> FALSE,
                                   ptitle |-> pt, prompt |-> pr, etitle |-> "", emsg |-> "", f1 |-> f1, f2 |-> f2]
DvPool     == { Dv("A1:A5", "list", "between", "\"a,b,c\"", "", "T<1>", "pick & choose"),
                Dv("B1 C3:C4", "whole", "notBetween", "1", "10", "", "") }
Rule(ty, op, pr, st, hf, f) == [type |-> ty, op |-> op, prio |-> pr, stop |-> st, hasf |-> hf, f |-> f]
CfPool     == { [sqref |-> "A1:A10", rules |-> <<Rule("cellIs", "greaterThan", 1, FALSE, TRUE, "5"),
                                                  Rule("expression", "equal", 2, TRUE, TRUE, "A1<>\"x\"")>>],
                [sqref |-> "B1:B3 D1", rules |-> <<Rule("duplicateValues", "equal", 3, FALSE, FALSE, "")>>] }
ViewPool   == { [pane |-> <<[xs |-> "1", ys |-> "2", tl |-> "B3", ap |-> "bottomRight", st |-> "frozen"]>>,
                 sel |-> <<[pane |-> "bottomRight", cell |-> "C5", sqref |-> "C5:D6"]>>, tl |-> "", tabsel |-> TRUE] }
PsPool     == { [paper |-> 9, orient |-> "landscape", scale |-> 80, fith |-> 1, fitw |-> 2, hdpi |-> 600, vdpi |-> 300] }
Flags      == [sheet |-> TRUE, objects |-> TRUE, scenarios |-> FALSE, formatCells |-> FALSE, formatColumns |-> TRUE,
               formatRows |-> FALSE, insertColumns |-> FALSE, insertRows |-> TRUE, insertHyperlinks |-> FALSE,
               deleteColumns |-> FALSE, deleteRows |-> FALSE, selectLocked |-> TRUE, selectUnlocked |-> FALSE, sort |-> FALSE,
               autoFilter |-> TRUE, pivotTables |-> FALSE]
Hash       == [alg |-> "SHA-512", hash |-> "q+/=", salt |-> "c2FsdA==", spin |-> 1000, legacy |-> ""]
ProtPool   == { Flags @@ Hash }
WbProtPool == { [lockStructure |-> TRUE, lockWindows |-> FALSE, lockRevision |-> FALSE, alg |-> "SHA-512", hash |-> "hh==",
                 salt |-> "ss", spin |-> 100000, legacy |-> "", ralg |-> "", rhash |-> "", rsalt |-> "", rspin |-> 0] }

Perms(q) == {p \in [DOMAIN q -> {q[k] : k \in DOMAIN q}] : \A a, b \in DOMAIN q : p[a] = p[b] => a = b}
Seeds    == Perms(CellPool)
AuSeeds  == Perms(AuthorPool \o <<"">>)
Restrict(seed, S) == SelectSeq(seed, LAMBDA x : x \in S)
Pick(S) == IF Wide THEN {RandomElement(S)} ELSE S

MCInit == /\ \E n \in Pick(IF Family \in {"links1", "authors"} THEN {<<"S1">>} ELSE {<<"S1">>, <<"S1", "My & Sheet">>}) : wb = InitWb(n) /\ hist = <<[a |-> "Init", sheets |-> n]>>
          /\ last = [op |-> "init"] /\ steps = 0
L == Family \in {"links", "links1", "all"}
R == Family \in {"rest", "all"}
Sh == DOMAIN wb.sheets

Log(rec) == steps < Depth /\ hist' = Append(hist, rec) /\ steps' = steps + 1
(* behaviours that are replayed on the library end with a save: the last step is reserved for it *)
LogB(rec) == ~(EmitReplay /\ steps = Depth - 1) /\ Log(rec)

MCAddSheet == /\ L /\ Len(wb.sheets) < MaxSheets
              /\ \E nm \in Pick(SheetNames) : AddSheet(nm) /\ LogB([a |-> "AddSheet", name |-> nm])
MCRename == /\ L
            /\ \E i \in Pick(Sh), nm \in Pick(SheetNames) : Rename(i, nm) /\ LogB([a |-> "Rename", s |-> i, name |-> nm])
MCRemoveSheet == L /\ \E i \in Pick(Sh) : RemoveSheet(i) /\ LogB([a |-> "RemoveSheet", s |-> i])
MCSetState == /\ L
              /\ \E i \in Pick(Sh), st \in Pick({"hidden", "veryHidden"}) :
                    SetState(i, st) /\ LogB([a |-> "SetState", s |-> i, state |-> st])
MCSetActive == L /\ \E k \in Pick(0..MaxSheets) : SetActive(k) /\ LogB([a |-> "SetActive", i |-> k])
MCAddMerge == /\ L
              /\ \E i \in Pick(Sh), rg \in Pick(MergePool) : AddMerge(i, rg) /\ LogB([a |-> "AddMerge", s |-> i, range |-> rg])
MCAddLink ==
  /\ L
  /\ \/ \E i \in Pick(Sh), k \in Pick(DOMAIN CellPool), u \in Pick(ExtUrls) :
          \E tp \in Pick(IF u = "http://b.example/" THEN Tips ELSE {""}) : AddLink(i, CellPool[k], u, FALSE, tp)
               /\ LogB([a |-> "AddLink", s |-> i, cell |-> CellPool[k], url |-> u, loc |-> FALSE, tip |-> tp])
     \/ \E i \in Pick(Sh), k \in Pick(DOMAIN CellPool), u \in Pick(LocUrls) :
          AddLink(i, CellPool[k], u, TRUE, "") /\ LogB([a |-> "AddLink", s |-> i, cell |-> CellPool[k], url |-> u, loc |-> TRUE, tip |-> ""])
MCAddComment ==
  /\ (L \/ AU3)
  /\ \E i \in Pick(Sh), rc \in Pick(CommentRC), k \in Pick(0..Len(AuthorPool)), tx \in Pick(Texts) :
        LET au == IF k = 0 THEN "" ELSE AuthorPool[k] IN
        AddComment(i, rc[1], rc[2], au, CatRuns(tx, 1))
        /\ LogB([a |-> "AddComment", s |-> i, r |-> rc[1], c |-> rc[2], author |-> au, runs |-> tx])
MCAddName == /\ L
             /\ \E h \in Pick(0..Len(wb.sheets)), n \in Pick(NamePool) : AddName(h, n) /\ LogB([a |-> "AddName", home |-> h] @@ n)
MCAddDv == R /\ \E i \in Pick(Sh), d \in Pick(DvPool) : AddDv(i, d) /\ LogB([a |-> "AddDv", s |-> i] @@ d)
MCAddCf == R /\ \E i \in Pick(Sh), x \in Pick(CfPool) : AddCf(i, x) /\ LogB([a |-> "AddCf", s |-> i] @@ x)
MCSetAf == R /\ \E i \in Pick(Sh), rg \in Pick({"A1:C10"}) : SetAf(i, rg) /\ LogB([a |-> "SetAf", s |-> i, range |-> rg])
MCSetCode == R /\ \E i \in Pick(Sh), cn \in Pick(Codes) : SetCode(i, cn) /\ LogB([a |-> "SetCodeName", s |-> i, code |-> cn])
MCSetTab == /\ R
            /\ \E i \in Pick(Sh), c \in Pick({"FF123456", "FFFF0000"}) : SetTab(i, c) /\ LogB([a |-> "SetTab", s |-> i, argb |-> c])
MCAddView == /\ R
             /\ \E i \in Pick(Sh), v \in Pick(ViewPool) :
                   wb.sheets[i].views = <<>> /\ AddView(i, v) /\ LogB([a |-> "SetView", s |-> i] @@ v)
MCSetPs == R /\ \E i \in Pick(Sh), p \in Pick(PsPool) : SetPs(i, p) /\ LogB([a |-> "SetPageSetup", s |-> i] @@ p)
MCSetHf == /\ R
           /\ \E i \in Pick(Sh), hf \in Pick({<<"&CPage &P <x>", "">>, <<"", "&Lfoot">>}) :
                 SetHf(i, hf[1], hf[2]) /\ LogB([a |-> "SetHf", s |-> i, h |-> hf[1], f |-> hf[2]])
MCSetProt == /\ R
             /\ \E i \in Pick(Sh), p \in Pick(ProtPool) : SetProt(i, p) /\ LogB([a |-> "SetProt", s |-> i, flags |-> Flags] @@ Hash)
MCSetWbProt == R /\ \E p \in Pick(WbProtPool) : SetWbProt(p) /\ LogB([a |-> "SetWbProt"] @@ p)
(* the distinct enumerations the seeds give for the current workbook (a set: equal enumerations are explored once) *)
LinkEnums == {[i \in Sh |-> Restrict(s, LinkCells(wb.sheets[i]))] : s \in (IF EmitReplay THEN {CellPool} ELSE Seeds)}
AuEnums   == {[i \in Sh |-> Restrict(s, AuthorsOf(wb.sheets[i]))] : s \in (IF EmitReplay THEN {AuthorPool \o <<"">>} ELSE AuSeeds)}
MCSaveLoad ==
  \E Q1 \in Pick(LinkEnums), Q2 \in Pick(LinkEnums), AU \in Pick(AuEnums) :
     /\ (Pairing = "one" => Q2 = Q1)
     /\ SaveLoad(Q1, Q2, AU)
     /\ Log([a |-> "SaveLoad", light |-> (steps % 2 = 1)])

MCNext == \/ MCAddSheet \/ MCRename \/ MCRemoveSheet \/ MCSetState \/ MCSetActive \/ MCAddMerge \/ MCAddLink \/ MCAddComment
          \/ MCAddName \/ MCAddDv \/ MCAddCf \/ MCSetAf \/ MCSetCode \/ MCSetTab \/ MCAddView \/ MCSetPs \/ MCSetHf \/ MCSetProt
          \/ MCSetWbProt \/ MCSaveLoad

MCSpec == MCInit /\ [][MCNext]_mcvars
View == <<wb, last, steps>>

AnnotationsKeptMC == [][last'.op = "saveload" => Kept(wb') = Kept(wb)]_mcvars

Emit == (EmitReplay /\ steps = Depth /\ last.op = "saveload") => PrintT(<<"REPLAY", ToJson(hist)>>)
=============================================================================
