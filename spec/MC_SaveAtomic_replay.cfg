\* one REPLAY line per (configuration, fault plan): single-chunk payloads of 1..6 units (caller-supplied writers: 1..4) around a 4-unit buffer
CONSTANTS BufCap = 4 Deviant = "none" MaxChunk = 6 MaxChunks = 1 PlanMode = "plans" EmitReplay = TRUE
SPECIFICATION MCSpec
INVARIANTS Emit NeverTorn AllOrNothing ErrorNotPanic
CHECK_DEADLOCK TRUE
