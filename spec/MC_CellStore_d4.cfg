CONSTANTS Wide = FALSE MaxRow = 4 MaxCol = 4 Win = 3 Depth = 4 Pools = "lean" EmitReplay = FALSE
SPECIFICATION MCSpec
VIEW View
INVARIANTS InGridInv CoherentInv QueriesAgree AllEmittedInv
PROPERTY Refines
CHECK_DEADLOCK FALSE
