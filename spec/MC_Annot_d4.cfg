CONSTANTS Depth = 4 MaxSheets = 2 Pairing = "one" Family = "links1" Wide = FALSE EmitReplay = FALSE
SPECIFICATION MCSpec
VIEW View
INVARIANTS WellFormed HomedAfterLoad
PROPERTY AnnotationsKeptMC
CHECK_DEADLOCK FALSE
