CONSTANTS Design = "own" Depth = 2 MaxSheets = 2 Family = "all" Shape = "free" Wide = FALSE EmitReplay = FALSE
SPECIFICATION MCSpec
VIEW View
INVARIANTS WellFormed RoundTrip Observers
PROPERTIES IndependenceMC ListOpsMC
CHECK_DEADLOCK FALSE
