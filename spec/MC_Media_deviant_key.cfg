CONSTANTS Wide = FALSE MaxRow = 6 MaxCol = 5 Depth = 3 Family = "rich" Gen = FALSE EmitReplay = FALSE
          MediaKey = "name" ChartCache = "tolerant"
SPECIFICATION MCSpec
VIEW View
INVARIANTS InGrid NamesUnique RoundTrip SaveAlwaysWorks
PROPERTIES OthersUntouchedMC RawKeptMC ReloadIdentityMC
CHECK_DEADLOCK FALSE
