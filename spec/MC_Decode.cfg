CONSTANTS MaxRow = 1048576 MaxCol = 16384 Wide = FALSE MaxOpts = 0 MaxSst = 1 MaxCells = 2 UseBlock = FALSE MaxAttrs = 0
  Variants = "all" EmitReplay = FALSE
SPECIFICATION MCSpec
INVARIANTS DecodeTotal KindByType SstIndirection AnchorFirst SharedConsistent PositionsImplied XLemmas FmtLemmas
CHECK_DEADLOCK FALSE
