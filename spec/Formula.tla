------------------------------ MODULE Formula ------------------------------
(***************************************************************************)
(* Formulas as token lists (C08, C09).                                     *)
(*                                                                         *)
(* A formula is a sequence of tokens.  A token is a record with a kind k:  *)
(*   ref     [k, qc, qq, g]   reference: qc = sheet name as a sequence of   *)
(*                            one-character strings (<<>> = unqualified),   *)
(*                            qq = written in apostrophes, g = geometry     *)
(*                            [k: cell|rect|rows|cols, c1,r1,lc1,lr1,       *)
(*                             c2,r2,lc2,lr2] (unused fields 0 / FALSE;     *)
(*                            ranges are normalised: c1 <= c2, r1 <= r2)    *)
(*   referr  [k, qc, qq]      a reference that became #REF!                 *)
(*   str     [k, cs]          string literal, cs = its characters           *)
(*   name    [k, cs]          defined name / table name used as operand     *)
(*   arr     [k, rows]        array constant, rows of element lexemes       *)
(*   ws      [k, n]           n blanks that are not an intersection         *)
(*   isect   [k, n]           n blanks between two operands: intersection   *)
(*   fn      [k, s]           function name; its text is s followed by (    *)
(*   num bool err op pre post sep open close brk   [k, s]  literal lexeme s *)
(*                            (brk: structured / external reference)        *)
(* Text is built with Codec.tla's printers.  Where the property allows     *)
(* several texts (blanks may vanish, #REF! with or without qualifier) the   *)
(* specification yields the set of acceptable renderings.                   *)
(*                                                                         *)
(* Translate  = Cell::set_coordinate (C09): dc/dr are added to exactly the *)
(*              non-$ parts; leaving the grid gives #REF!.                  *)
(* InsTok/RemTok = row/column insert/remove (C08): a reference follows its *)
(*              target cells whether or not it is written with $; ranges    *)
(*              are clipped like in C07 (Grid.tla); deleted target = #REF!. *)
(* No operator quantifies over the grid except the Target* operators used   *)
(* by the model-checked properties on a small grid.                         *)
(***************************************************************************)
EXTENDS Grid, Sequences, FiniteSets, TLC

CONSTANTS MaxRow, MaxCol

Cd == INSTANCE Codec WITH LastName <- 18278, n <- 1, ds <- <<1>>

Lines(ax) == IF ax = "row" THEN MaxRow ELSE MaxCol
Axes == {"row", "col"}

(* ---- text ---------------------------------------------------------------- *)
RECURSIVE Dbl(_, _)      \* characters cs with every occurrence of q doubled
Dbl(cs, q) == IF cs = <<>> THEN "" ELSE (IF Head(cs) = q THEN q \o q ELSE Head(cs)) \o Dbl(Tail(cs), q)
RECURSIVE Blanks(_)
Blanks(n) == IF n <= 0 THEN "" ELSE " " \o Blanks(n - 1)
RECURSIVE Join(_, _)     \* strings of a sequence joined by sep
Join(ss, sep) == IF ss = <<>> THEN "" ELSE IF Len(ss) = 1 THEN ss[1] ELSE ss[1] \o sep \o Join(Tail(ss), sep)

QualQuoted(qc) == "'" \o Dbl(qc, "'") \o "'!"
QualPlain(qc)  == Cd!Concat(qc) \o "!"
QualText(t)    == IF t.qc = <<>> THEN "" ELSE IF t.qq THEN QualQuoted(t.qc) ELSE QualPlain(t.qc)
(* a qualifier may be re-written in apostrophes (same sheet), never the other way round *)
QualAlts(t)    == IF t.qc = <<>> THEN {""} ELSE {QualText(t), QualQuoted(t.qc)}

StrText(cs) == "\"" \o Dbl(cs, "\"") \o "\""
ArrText(rows) == "{" \o Join([i \in DOMAIN rows |-> Join(rows[i], ",")], ";") \o "}"

IsRef(t) == t.k = "ref"
Two(g)     == g.k # "cell"
HasRows(g) == g.k \in {"cell", "rect", "rows"}
HasCols(g) == g.k \in {"cell", "rect", "cols"}
Degenerate(g) == g.k = "rect" /\ g.c1 = g.c2 /\ g.r1 = g.r2
(* a one-cell rectangle designates the same cell as either of its corners *)
GeoAlts(g) == IF Degenerate(g)
              THEN {Cd!RangeStr(g), Cd!CoordStr(g.c1, g.r1, g.lc1, g.lr1), Cd!CoordStr(g.c2, g.r2, g.lc2, g.lr2)}
              ELSE {Cd!RangeStr(g)}

TokText(t) ==
  CASE t.k = "ref"    -> QualText(t) \o Cd!RangeStr(t.g)
    [] t.k = "referr" -> "#REF!"
    [] t.k = "str"    -> StrText(t.cs)
    [] t.k = "name"   -> Cd!Concat(t.cs)
    [] t.k = "arr"    -> ArrText(t.rows)
    [] t.k \in {"ws", "isect"} -> Blanks(t.n)
    [] t.k = "fn"     -> t.s \o "("
    [] OTHER          -> t.s
TokAlts(t) ==
  CASE t.k = "ref"    -> {q \o b : q \in QualAlts(t), b \in GeoAlts(t.g)}
    [] t.k = "referr" -> {"#REF!"} \cup {q \o "#REF!" : q \in QualAlts(t)}
    [] t.k = "ws"     -> {Blanks(i) : i \in 0..t.n}
    [] t.k = "isect"  -> {Blanks(i) : i \in 1..t.n}
    [] OTHER          -> {TokText(t)}
(* the text with every removable blank removed (one blank per intersection) *)
TokMin(t) == CASE t.k = "ws" -> "" [] t.k = "isect" -> " " [] OTHER -> TokText(t)

RECURSIVE Render(_)
Render(f) == IF f = <<>> THEN "" ELSE TokText(Head(f)) \o Render(Tail(f))
RECURSIVE RenderMin(_)
RenderMin(f) == IF f = <<>> THEN "" ELSE TokMin(Head(f)) \o RenderMin(Tail(f))
RECURSIVE Renderings(_)
Renderings(f) == IF f = <<>> THEN {""} ELSE {a \o b : a \in TokAlts(Head(f)), b \in Renderings(Tail(f))}
(* is text one of the acceptable renderings of f (cheap cases first) *)
Accepts(f, text) == text = RenderMin(f) \/ text = Render(f) \/ text \in Renderings(f)

(* ---- relative translation (C09) ------------------------------------------ *)
Mv(x, lock, d) == IF lock THEN x ELSE x + d
TransG(g, dc, dr) ==
  [g EXCEPT !.c1 = IF HasCols(g) THEN Mv(@, g.lc1, dc) ELSE @,
            !.r1 = IF HasRows(g) THEN Mv(@, g.lr1, dr) ELSE @,
            !.c2 = IF HasCols(g) /\ Two(g) THEN Mv(@, g.lc2, dc) ELSE @,
            !.r2 = IF HasRows(g) /\ Two(g) THEN Mv(@, g.lr2, dr) ELSE @]
GInGrid(g) ==
  /\ HasCols(g) => (g.c1 >= 1 /\ g.c1 <= MaxCol /\ (Two(g) => (g.c2 >= 1 /\ g.c2 <= MaxCol)))
  /\ HasRows(g) => (g.r1 >= 1 /\ g.r1 <= MaxRow /\ (Two(g) => (g.r2 >= 1 /\ g.r2 <= MaxRow)))
RefErr(t) == [k |-> "referr", qc |-> t.qc, qq |-> t.qq]
Translate(t, dc, dr) ==
  IF ~IsRef(t) THEN t
  ELSE LET g2 == TransG(t.g, dc, dr) IN IF GInGrid(g2) THEN [t EXCEPT !.g = g2] ELSE RefErr(t)
TranslateF(f, dc, dr) == [i \in DOMAIN f |-> Translate(f[i], dc, dr)]

(* ---- structural edits (C08) ------------------------------------------------ *)
SheetOf(t, own) == IF t.qc = <<>> THEN own ELSE Cd!Concat(t.qc)
OnAxis(g, ax) == IF ax = "row" THEN HasRows(g) ELSE HasCols(g)
(* first and second corner on an axis; a translation with mixed $ can leave them in either order *)
Fst(g, ax) == IF ax = "row" THEN g.r1 ELSE g.c1
Snd(g, ax) == IF Two(g) THEN (IF ax = "row" THEN g.r2 ELSE g.c2) ELSE Fst(g, ax)
Lo(g, ax) == IF Fst(g, ax) <= Snd(g, ax) THEN Fst(g, ax) ELSE Snd(g, ax)
Hi(g, ax) == IF Fst(g, ax) <= Snd(g, ax) THEN Snd(g, ax) ELSE Fst(g, ax)
SetLoHi(g, ax, lo, hi) ==        \* sets the first and the second corner on the axis
  IF ax = "row" THEN [g EXCEPT !.r1 = lo, !.r2 = IF Two(g) THEN hi ELSE @]
                ELSE [g EXCEPT !.c1 = lo, !.c2 = IF Two(g) THEN hi ELSE @]
InsG(g, ax, p, n) == IF OnAxis(g, ax) THEN SetLoHi(g, ax, InsIdx(Fst(g, ax), p, n), InsIdx(Snd(g, ax), p, n)) ELSE g
GDeleted(g, ax, p, n) == OnAxis(g, ax) /\ Lo(g, ax) >= p /\ Hi(g, ax) < p + n
RemG(g, ax, p, n) == IF ~OnAxis(g, ax) THEN g
                     ELSE IF Fst(g, ax) <= Snd(g, ax) THEN SetLoHi(g, ax, ClipLo(Fst(g, ax), p, n), ClipHi(Snd(g, ax), p, n))
                     ELSE SetLoHi(g, ax, ClipHi(Fst(g, ax), p, n), ClipLo(Snd(g, ax), p, n))      \* the low edge is the second corner

(* the token belongs to the edited sheet: unqualified references belong to the formula's own sheet *)
Applies(t, own, edited) == IsRef(t) /\ SheetOf(t, own) = edited
InsTok(t, own, edited, ax, p, n) == IF Applies(t, own, edited) THEN [t EXCEPT !.g = InsG(@, ax, p, n)] ELSE t
RemTok(t, own, edited, ax, p, n) ==
  IF ~Applies(t, own, edited) THEN t
  ELSE IF GDeleted(t.g, ax, p, n) THEN RefErr(t) ELSE [t EXCEPT !.g = RemG(@, ax, p, n)]
InsF(f, own, edited, ax, p, n) == [i \in DOMAIN f |-> InsTok(f[i], own, edited, ax, p, n)]
RemF(f, own, edited, ax, p, n) == [i \in DOMAIN f |-> RemTok(f[i], own, edited, ax, p, n)]

(* highest line a reference of the edited sheet occupies on the axis (0 if none) *)
TokExtent(t, own, edited, ax) == IF Applies(t, own, edited) /\ OnAxis(t.g, ax) THEN Hi(t.g, ax) ELSE 0
Max0(T) == IF T = {} THEN 0 ELSE CHOOSE m \in T : \A y \in T : y <= m
FExtent(f, own, edited, ax) == Max0({TokExtent(f[i], own, edited, ax) : i \in DOMAIN f})

(* ---- the workbook: sheet names, formula cells, defined names, chart series --- *)
(*   W.sheets  sequence of sheet names (strings)                                   *)
(*   W.cells   set of [s, r, c, f]      formula cell of sheet s with token list f  *)
(*   W.names   set of [on, i, t]        i-th defined name kept on sheet `on`       *)
(*                                      (0 = workbook level); t a qualified ref     *)
(*   W.charts  set of [on, i, ts]       i-th chart of sheet `on`, series refs ts    *)
WbExtent(W, s, ax) ==
  LET ed == W.sheets[s] IN
  Max0({IF x.s = s THEN (IF ax = "row" THEN x.r ELSE x.c) ELSE 0 : x \in W.cells}
       \cup {FExtent(x.f, W.sheets[x.s], ed, ax) : x \in W.cells}
       \cup {TokExtent(x.t, "", ed, ax) : x \in W.names}
       \cup {FExtent(x.ts, "", ed, ax) : x \in W.charts})
(* in-range arguments: nothing (cell or referenced line) is pushed beyond the grid *)
CanInsertWb(W, s, ax, p, n) == s \in DOMAIN W.sheets /\ p >= 1 /\ n >= 1 /\ p <= Lines(ax) /\ WbExtent(W, s, ax) + n <= Lines(ax)
CanRemoveWb(W, s, ax, p, n) == s \in DOMAIN W.sheets /\ p >= 1 /\ n >= 1 /\ p + n - 1 <= Lines(ax)

CellIns(x, s, ax, p, n) == IF x.s # s THEN x ELSE IF ax = "row" THEN [x EXCEPT !.r = InsIdx(@, p, n)] ELSE [x EXCEPT !.c = InsIdx(@, p, n)]
CellInBand(x, s, ax, p, n) == x.s = s /\ InBand(IF ax = "row" THEN x.r ELSE x.c, p, n)
CellRem(x, s, ax, p, n) == IF x.s # s THEN x ELSE IF ax = "row" THEN [x EXCEPT !.r = RemIdx(@, p, n)] ELSE [x EXCEPT !.c = RemIdx(@, p, n)]

PostInsert(W, s, ax, p, n) ==
  LET ed == W.sheets[s] IN
  [W EXCEPT !.cells  = {[CellIns(x, s, ax, p, n) EXCEPT !.f = InsF(@, W.sheets[x.s], ed, ax, p, n)] : x \in @},
            !.names  = {[x EXCEPT !.t = InsTok(@, "", ed, ax, p, n)] : x \in @},
            !.charts = {[x EXCEPT !.ts = InsF(@, "", ed, ax, p, n)] : x \in @}]
PostRemove(W, s, ax, p, n) ==
  LET ed == W.sheets[s] IN
  [W EXCEPT !.cells  = {[CellRem(x, s, ax, p, n) EXCEPT !.f = RemF(@, W.sheets[x.s], ed, ax, p, n)]
                          : x \in {y \in @ : ~CellInBand(y, s, ax, p, n)}},
            !.names  = {[x EXCEPT !.t = RemTok(@, "", ed, ax, p, n)] : x \in @},
            !.charts = {[x EXCEPT !.ts = RemF(@, "", ed, ax, p, n)] : x \in @}]

---------------------------------------------------------------------------
(* ---- the property, stated on target cells (small grids only) --------------- *)
RowSpan(g) == IF HasRows(g) THEN g.r1..(IF Two(g) THEN g.r2 ELSE g.r1) ELSE 1..MaxRow
ColSpan(g) == IF HasCols(g) THEN g.c1..(IF Two(g) THEN g.c2 ELSE g.c1) ELSE 1..MaxCol
TargetCells(g) == {<<r, c>> : r \in RowSpan(g), c \in ColSpan(g)}
PosOn(x, ax) == IF ax = "row" THEN x[1] ELSE x[2]
MovePos(x, ax, v) == IF ax = "row" THEN <<v, x[2]>> ELSE <<x[1], v>>
InGridPos(x) == x[1] >= 1 /\ x[1] <= MaxRow /\ x[2] >= 1 /\ x[2] <= MaxCol
SameShape(t, u) == IsRef(u) /\ u.qc = t.qc /\ u.qq = t.qq /\ u.g.k = t.g.k /\ u.g.lc1 = t.g.lc1 /\ u.g.lr1 = t.g.lr1
                   /\ u.g.lc2 = t.g.lc2 /\ u.g.lr2 = t.g.lr2
(* u is what t must have become when n lines were inserted before line p of sheet `edited` *)
SameTargetIns(t, u, own, edited, ax, p, n) ==
  IF ~Applies(t, own, edited) THEN u = t
  ELSE LET img == {y \in {MovePos(x, ax, InsIdx(PosOn(x, ax), p, n)) : x \in TargetCells(t.g)} : InGridPos(y)}
       IN /\ SameShape(t, u)
          /\ img \subseteq TargetCells(u.g)
          /\ \A y \in TargetCells(u.g) \ img : InBand(PosOn(y, ax), p, n)       \* only new blank cells are added
(* ... when the band p..p+n-1 of sheet `edited` was removed *)
SameTargetRem(t, u, own, edited, ax, p, n) ==
  IF ~Applies(t, own, edited) THEN u = t
  ELSE LET surv == {x \in TargetCells(t.g) : ~InBand(PosOn(x, ax), p, n)}
           img  == {MovePos(x, ax, RemIdx(PosOn(x, ax), p, n)) : x \in surv}
       IN IF surv = {} THEN u = RefErr(t)
          ELSE /\ SameShape(t, u)
               /\ img \subseteq TargetCells(u.g)
               /\ \A y \in TargetCells(u.g) \ img : PosOn(y, ax) > Lines(ax) - n   \* lines entering at the far edge
=============================================================================
