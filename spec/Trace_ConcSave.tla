--------------------------- MODULE Trace_ConcSave ---------------------------
(* Trace validation for C16: real threads released yield point by yield point in a schedule chosen by
   TLC; every step must be the ConcSave step of that saver (same control point before and after), and
   the files produced must be the ones the specification's final state describes. *)
EXTENDS ConcSave, TraceBase

VARIABLE l
tvars == <<todo, grp, base, pc, nxt, table, idx, part, dump, rel, l>>

PointOf(p) == CASE p = "begin" -> 1 [] p = "reg" -> 2 [] p = "chk" -> 3 [] p = "dump" -> 4
                [] p = "rels" -> 5 [] p = "end" -> 6 [] p = "done" -> 0

Become(n) == /\ pc' = n.pc /\ nxt' = n.nxt /\ table' = n.table /\ idx' = n.idx
             /\ part' = n.part /\ dump' = n.dump /\ rel' = n.rel /\ UNCHANGED <<todo, grp, base>>

(* What saver t's file must look like.  These are the property's own predicates, stated on the saver's
   inputs only (for the table-private design the outcome does not depend on the interleaving, which is
   what TLC establishes on ConcSave.tla): every text cell shows its own string, the package is coherent,
   nothing of another saver is in the file. *)
FileOK(t, o) ==
  /\ o.outcome = "ok"
  /\ o.view.wellformed /\ o.view.bad_index = 0
  /\ (o.view.has_part <=> o.view.has_rel) /\ (o.view.has_part <=> o.view.has_ct)
  /\ SeqSet(o.view.sst) \subseteq (SeqSet(o.want) \cup SeqSet(base[t]))     \* nothing foreign
  /\ o.cells = o.want                  \* every text cell (raw sheets included) shows its own string

(* a step whose control points differ from the specification's prediction: the schedule was not realised
   as planned (e.g. the implementation registers strings differently); the files are still judged *)
Note(what) == PrintT(<<"NOTE", l, what>>)

(* long sequences are reported by their first difference *)
FirstDiff(a, b) == LET d == {i \in 1..(IF Len(a) < Len(b) THEN Len(a) ELSE Len(b)) : a[i] # b[i]}
                   IN IF d = {} THEN 0 ELSE MinOf(d)
Brief(q) == IF Len(q) <= 16 THEN q ELSE <<"sequence of length", Len(q)>>
BriefPair(c, w) == IF Len(c) <= 16 /\ Len(w) <= 16 THEN <<c, w>>
                   ELSE LET d == FirstDiff(c, w) IN
                        <<"cells", Len(c), "want", Len(w), "first difference at", d,
                          IF d > 0 THEN <<c[d], w[d]>> ELSE <<>> >>

Ev == Rec[l]
Step1(e) ==
  IF e.a = "Fatal" THEN UNCHANGED cvars /\ Mismatch(l, <<"impl", "fatal", e.outcome>>)
  ELSE IF e.a = "Start"
  THEN /\ todo' = e.todo /\ grp' = e.grp /\ base' = e.base
       /\ pc' = [t \in DOMAIN e.todo |-> "begin"] /\ nxt' = [t \in DOMAIN e.todo |-> 1]
       /\ table' = e.base /\ idx' = [t \in DOMAIN e.todo |-> <<>>]
       /\ part' = [t \in DOMAIN e.todo |-> FALSE] /\ dump' = [t \in DOMAIN e.todo |-> <<>>]
       /\ rel' = [t \in DOMAIN e.todo |-> FALSE]
  ELSE IF e.a = "Step"
  THEN IF e.t \notin Savers \/ pc[e.t] = "done"
       THEN UNCHANGED cvars /\ Note(<<"step of a saver the specification has finished", e.t>>)
       ELSE LET n == StepOf(State, e.t) IN
            /\ Become(n)
            /\ IF e.outcome # "ok" THEN Mismatch(l, <<"impl", "step", e.t, e.outcome>>)
               ELSE IF e.at = PointOf(pc[e.t]) /\ e.next = PointOf(n.pc[e.t]) THEN TRUE
               ELSE Note(<<"control", e.t, "at", e.at, PointOf(pc[e.t]), "next", e.next, PointOf(n.pc[e.t])>>)
  ELSE IF e.a = "Done"
  THEN /\ UNCHANGED cvars
       /\ IF e.outcome # "ok" \/ Len(e.outs) # Len(todo) THEN Mismatch(l, <<"impl", "done", e.outcome>>)
          ELSE LET bad == {t \in Savers : ~FileOK(t, e.outs[t])} IN
               IF bad = {} THEN TRUE
               ELSE Mismatch(l, <<"impl", "file", MinOf(bad), "part/rel", part[MinOf(bad)], rel[MinOf(bad)],
                                  "dump", Brief(dump[MinOf(bad)]), "todo", Brief(todo[MinOf(bad)]),
                                  "observed", e.outs[MinOf(bad)].outcome,
                                  BriefPair(e.outs[MinOf(bad)].cells, e.outs[MinOf(bad)].want),
                                  e.outs[MinOf(bad)].view.sst, e.outs[MinOf(bad)].view.has_part,
                                  e.outs[MinOf(bad)].view.has_rel>>)
  ELSE UNCHANGED cvars /\ Mismatch(l, <<"gen", e.a>>)

TraceInit == /\ l = 1 /\ todo = <<>> /\ grp = <<>> /\ base = <<>> /\ pc = <<>> /\ nxt = <<>> /\ table = <<>> /\ idx = <<>>
             /\ part = <<>> /\ dump = <<>> /\ rel = <<>>
TraceNext == l <= Len(Rec) /\ l' = l + 1 /\ Step1(Ev)
TraceSpec == TraceInit /\ [][TraceNext]_tvars
=============================================================================
