--------------------------- MODULE Trace_ConcSave ---------------------------
(* Trace validation for C16: real threads released yield point by yield point in a schedule chosen by
   TLC; every step must be the ConcSave step of that saver (same control point before and after), and
   the files produced must be the ones the specification's final state describes. *)
EXTENDS ConcSave, TraceBase

VARIABLE l
tvars == <<todo, grp, base, pc, nxt, table, idx, part, dump, rel, l>>

PointOf(p) == CASE p = "begin" -> 1 [] p = "reg" -> 2 [] p = "chk" -> 3 [] p = "dump" -> 4
                [] p = "rels" -> 5 [] p = "end" -> 6 [] p = "done" -> 0

Become(n) == /\ pc' = n.pc /\ nxt' = n.nxt /\ table' = n.table /\ idx' = n.idx
             /\ part' = n.part /\ dump' = n.dump /\ rel' = n.rel /\ UNCHANGED <<todo, grp, base>>

(* what saver t's file must look like (view of pydec/sst_view.py + flattened cell texts) *)
FileOK(t, o) ==
  /\ o.outcome = "ok"
  /\ o.view.wellformed /\ o.view.bad_index = 0
  (* the part, its relationship and its content type come together; it must be there when the saver
     has strings (whether an empty part is written for a saver without strings is the writer's business) *)
  /\ (o.view.has_part <=> o.view.has_rel) /\ (o.view.has_part <=> o.view.has_ct)
  /\ (part[t] => o.view.has_part)
  (* the strings a solo save would dump, nothing foreign (order and repetition are the writer's business) *)
  /\ SeqSet(o.view.sst) = SeqSet(dump[t])
  /\ o.cells = o.want                  \* every text cell (raw sheets included) shows its own string

Ev == Rec[l]
Step1(e) ==
  IF e.a = "Fatal" THEN UNCHANGED cvars /\ Mismatch(l, <<"impl", "fatal", e.outcome>>)
  ELSE IF e.a = "Start"
  THEN /\ todo' = e.todo /\ grp' = e.grp /\ base' = e.base
       /\ pc' = [t \in DOMAIN e.todo |-> "begin"] /\ nxt' = [t \in DOMAIN e.todo |-> 1]
       /\ table' = e.base /\ idx' = [t \in DOMAIN e.todo |-> <<>>]
       /\ part' = [t \in DOMAIN e.todo |-> FALSE] /\ dump' = [t \in DOMAIN e.todo |-> <<>>]
       /\ rel' = [t \in DOMAIN e.todo |-> FALSE]
  ELSE IF e.a = "Step"
  THEN IF e.t \notin Savers \/ pc[e.t] = "done"
       THEN UNCHANGED cvars /\ Mismatch(l, <<"gen", "step of a finished saver">>)
       ELSE LET n == StepOf(State, e.t) IN
            /\ Become(n)
            /\ IF e.outcome = "ok" /\ e.at = PointOf(pc[e.t]) /\ e.next = PointOf(n.pc[e.t]) THEN TRUE
               ELSE Mismatch(l, <<"impl", "control", e.t, e.outcome, "at", e.at, PointOf(pc[e.t]),
                                  "next", e.next, PointOf(n.pc[e.t])>>)
  ELSE IF e.a = "Done"
  THEN /\ UNCHANGED cvars
       /\ IF ~(\A t \in Savers : Done(t)) THEN Mismatch(l, <<"gen", "incomplete schedule">>)
          ELSE IF e.outcome # "ok" \/ Len(e.outs) # Len(todo) THEN Mismatch(l, <<"impl", "done", e.outcome>>)
          ELSE LET bad == {t \in Savers : ~FileOK(t, e.outs[t])} IN
               IF bad = {} THEN TRUE
               ELSE Mismatch(l, <<"impl", "file", MinOf(bad), "part/rel", part[MinOf(bad)], rel[MinOf(bad)],
                                  "dump", dump[MinOf(bad)], "todo", todo[MinOf(bad)],
                                  "observed", e.outs[MinOf(bad)].outcome, e.outs[MinOf(bad)].cells,
                                  e.outs[MinOf(bad)].view.sst, e.outs[MinOf(bad)].view.has_part,
                                  e.outs[MinOf(bad)].view.has_rel>>)
  ELSE UNCHANGED cvars /\ Mismatch(l, <<"gen", e.a>>)

TraceInit == /\ l = 1 /\ todo = <<>> /\ grp = <<>> /\ base = <<>> /\ pc = <<>> /\ nxt = <<>> /\ table = <<>> /\ idx = <<>>
             /\ part = <<>> /\ dump = <<>> /\ rel = <<>>
TraceNext == l <= Len(Rec) /\ l' = l + 1 /\ Step1(Ev)
TraceSpec == TraceInit /\ [][TraceNext]_tvars
=============================================================================
