CONSTANTS Strs = {"Qa7x", "Qb7x", "Qc7x", "Qd7x"} MaxBooks = 100 Sharing = "private"
SPECIFICATION TraceSpec
POSTCONDITION Consumed
CHECK_DEADLOCK FALSE
