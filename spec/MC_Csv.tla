---- MODULE MC_Csv ----
(* Model-checking scopes of Csv.tla.  Code points: a=97 b=98 ,=44 "=34 '=39 CR=13 LF=10 SP=32 TAB=9 *)
(* e-acute=233 (stands for "a non-ASCII character the target encoding can represent").            *)
EXTENDS Csv

(* value classes: plain, comma, quote characters (inside, at the edges, alone), CR/LF, padded,    *)
(* white space only, non-ASCII *)
PaletteValues ==
  { <<97, 98>>,              \* ab
    <<97, 44, 98>>,          \* a,b
    <<97, 34, 98>>,          \* a"b
    <<39, 97, 39>>,          \* 'a'
    <<34>>,                  \* "
    <<97, 13, 10, 98>>,      \* a CR LF b
    <<10, 98>>,              \* LF b
    <<32, 97, 32>>,          \* padded
    <<32>>,                  \* blank only
    <<233, 44>> }            \* non-ASCII, trailing comma

(* quick tier: the same without the two classes that MC_Csv_deep covers character by character *)
QuickValues == PaletteValues \ { <<10, 98>>, <<233, 44>> }

SmallValues == { <<97>>, <<34, 44>> }

Alphabet == {97, 44, 34, 39, 13, 10, 32}
DeepValues ==
  {<<x>> : x \in Alphabet} \cup {<<x, y>> : x, y \in Alphabet} \cup {<<x, y, z>> : x, y, z \in Alphabet}

ReplayValues ==
  { <<97, 98>>, <<97, 44, 98>>, <<34, 97, 34, 98>>, <<39>>, <<13, 10, 97>>, <<97, 10>>, <<32, 97, 9>>, <<233, 97>> }

(* removal histories: two plain classes are enough, the point is which cells are left *)
RemovalValues == { <<97>>, <<98, 44, 34>> }

NoFree == {}
FreeChars == {97, 44, 34, 39, 13, 10}

(* replay emission: only the build phase is explored (histories of at most 2 build actions, *)
(* overwriting a cell included), every Begin prints its history                            *)
BuildOnly == pc = "build" /\ Len(hist) <= 2
BuildOnly3 == pc = "build" /\ Len(hist) <= 3
====
