CONSTANTS Wide = TRUE MaxRow = 16 MaxCol = 10 Win = 3 Depth = 60 Pools = "full" EmitReplay = TRUE
SPECIFICATION MCSpec
INVARIANTS Emit InGridInv CoherentInv AllEmittedInv
CHECK_DEADLOCK FALSE
