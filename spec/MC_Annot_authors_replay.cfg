CONSTANTS Depth = 4 MaxSheets = 1 Pairing = "one" Family = "authors" Wide = FALSE EmitReplay = TRUE
SPECIFICATION MCSpec
INVARIANTS Emit
CHECK_DEADLOCK FALSE
