CONSTANTS Sharing = "private" Scenario = "empty" EmitReplay = TRUE
SPECIFICATION MSpec
INVARIANTS Emit
CHECK_DEADLOCK FALSE
