----------------------------- MODULE Trace_SST -----------------------------
(* Trace validation for C12 (histories of workbook objects and saves) against SST.tla. *)
EXTENDS SST, TraceBase, SequencesExt

VARIABLE l
tvars == <<books, tables, files, last, l>>

(* observation of one workbook: {sheets: names, cells: [[sheet, row, text], ..]} *)
ObsOK(o)   == \A i \in DOMAIN o.cells : <<o.cells[i][1], o.cells[i][2]>> \in Cells
ObsText(o) == [c \in Cells |->
                 IF \E i \in DOMAIN o.cells : o.cells[i][1] = c[1] /\ o.cells[i][2] = c[2]
                 THEN o.cells[CHOOSE i \in DOMAIN o.cells : o.cells[i][1] = c[1] /\ o.cells[i][2] = c[2]][3]
                 ELSE NoText]
ObsHas2(o) == \E i \in DOMAIN o.sheets : o.sheets[i] = "S2"
ObsBook(o) == [text |-> ObsText(o), has2 |-> ObsHas2(o), raw |-> ToSet(o.raw)]
Proj(b)    == [text |-> b.text, has2 |-> b.has2, raw |-> b.raw]
ObsMatches(bs, obs) ==
  /\ Len(obs) = Len(bs)
  /\ \A i \in DOMAIN obs : ObsOK(obs[i]) /\ Len(obs[i].cells) = Cardinality({c \in Cells : ObsText(obs[i])[c] # NoText})
                          /\ ObsBook(obs[i]) = Proj(bs[i])
(* after a mismatch follow the observation *)
Resync(obs) == [i \in DOMAIN obs |-> [text |-> ObsText(obs[i]), has2 |-> ObsHas2(obs[i]), tbl |-> 1,
                                        raw |-> ToSet(obs[i].raw),
                                        ltab |-> IF i \in DOMAIN books THEN books[i].ltab ELSE {}]]

(* the file as decoded by pydec/sst_view.py *)
ViewText(v) == [c \in Cells |->
                  LET nm == IF c[1] = 1 THEN "S1" ELSE "S2"
                      sh == {i \in DOMAIN v.sheets : v.sheets[i].name = nm}
                  IN IF sh = {} THEN NoText
                     ELSE LET cs == v.sheets[CHOOSE i \in sh : TRUE].cells
                              hit == {k \in DOMAIN cs : cs[k][1] = c[2]}
                          IN IF hit = {} THEN NoText ELSE cs[CHOOSE k \in hit : TRUE][2]]
ViewBase(v, b) ==
  /\ v.wellformed /\ v.bad_index = 0
  /\ (v.has_part <=> v.has_rel) /\ (v.has_part <=> v.has_ct)
  /\ ViewText(v) = b.text                    \* Decodes
ViewOK(v, b) ==
  /\ ViewBase(v, b)
  /\ ToSet(v.present) = Reach(b)             \* OnlyReachable, over every part of the package
  /\ ToSet(v.sst) \subseteq Reach(b)
(* C12-KF1: while a lazily opened workbook still has an unloaded sheet, a save carries the whole string
   table of the loaded file over (raw sheets keep indexes into it), including strings no cell shows any
   more.  Trigger: some sheet raw and the loaded table holds a string that is not reachable.
   Outcome: exactly Reach \cup loaded table - nothing else (no string of another workbook object, of
   an earlier save, or overwritten after loading). *)
KF1Trigger(b) == b.raw # {} /\ ~(b.ltab \subseteq Reach(b))
ViewKF1(v, b) ==
  /\ ViewBase(v, b)
  /\ ToSet(v.present) = Reach(b) \cup b.ltab
  /\ ToSet(v.sst) \subseteq Reach(b) \cup b.ltab      \* (which strings go through the table is the writer's business)

Expected(e) ==
  CASE e.a = "SetText"     -> [books EXCEPT ![e.w] = SetTextB(@, <<e.sh, e.r>>, e.s)]
    [] e.a = "Delete"      -> [books EXCEPT ![e.w] = DeleteB(@, <<e.sh, e.r>>)]
    [] e.a = "RemoveRow"   -> [books EXCEPT ![e.w] = RemoveRowB(@, e.r)]
    [] e.a = "RemoveSheet" -> [books EXCEPT ![e.w] = RemoveSheetB(@)]
    [] e.a = "Clone"       -> Append(books, books[e.w])
    [] e.a = "Save"        -> books
    [] e.a = "Reload"      -> Append(books, LoadedB(files[e.w][1], e.lazy, 1))
    [] e.a = "ReadSheet"   -> [books EXCEPT ![e.w] = ReadSheetB(@, e.sh)]
InContract(e) ==
  /\ e.a \in {"SetText", "Delete", "RemoveRow", "RemoveSheet", "Clone", "Save", "Reload", "ReadSheet"}
  /\ e.w \in DOMAIN books
  /\ (e.a = "SetText" => (<<e.sh, e.r>> \in Cells /\ (e.sh = 2 => books[e.w].has2)))
  /\ (e.a = "Delete" => (<<e.sh, e.r>> \in Cells /\ (e.sh = 2 => books[e.w].has2)))
  /\ (e.a = "RemoveSheet" => books[e.w].has2)
  /\ (e.a = "Reload" => files[e.w] # <<>>)
  /\ (e.a = "ReadSheet" => e.sh \in books[e.w].raw)

Ev == Rec[l]
Step(e) ==
  IF e.a = "Fatal" THEN UNCHANGED <<books, files>> /\ Mismatch(l, <<"impl", "fatal", e.outcome>>)
  ELSE IF e.a = "Init"
  THEN /\ books' = <<NewBook>> /\ files' = <<<<>>>>
       /\ IF e.outcome = "ok" /\ ObsMatches(books', e.texts) THEN TRUE ELSE Mismatch(l, <<"init">>)
  ELSE IF ~InContract(e)
  THEN books' = Resync(e.texts) /\ files' = [i \in DOMAIN e.texts |-> IF i \in DOMAIN files THEN files[i] ELSE <<>>]
       /\ Mismatch(l, <<"gen", e.a>>)
  ELSE LET want == Expected(e) IN
       /\ IF e.outcome = "ok" /\ ObsMatches(want, e.texts)
             /\ (e.a = "Save" => ViewOK(e.view, books[e.w]))
          THEN books' = want
          ELSE IF e.outcome = "ok" /\ ObsMatches(want, e.texts) /\ e.a = "Save" /\ KFOn("C12-KF1")
                  /\ KF1Trigger(books[e.w]) /\ ViewKF1(e.view, books[e.w])
          THEN books' = want /\ KFHit("C12-KF1", l)
          ELSE /\ books' = Resync(e.texts)
               /\ Mismatch(l, <<"impl", e.a, e.outcome,
                               IF e.a = "Save" /\ e.outcome = "ok"
                               THEN <<"reachable", Reach(books[e.w]), "present", e.view.present, "sst", e.view.sst,
                                      "part/rel/ct", e.view.has_part, e.view.has_rel, e.view.has_ct>>
                               ELSE <<"texts">> >>)
       /\ files' = IF e.a = "Save" /\ e.outcome = "ok" THEN [files EXCEPT ![e.w] = <<FileOf(books[e.w], ToSet(e.view.sst))>>]
                   ELSE IF e.a \in {"Clone", "Reload"} THEN Append(files, <<>>) ELSE files

TraceInit == l = 1 /\ books = <<>> /\ tables = <<>> /\ files = <<>> /\ last = [op |-> "init", w |-> 1]
TraceNext == l <= Len(Rec) /\ l' = l + 1 /\ Step(Ev) /\ UNCHANGED <<tables, last>>
TraceSpec == TraceInit /\ [][TraceNext]_tvars
=============================================================================
