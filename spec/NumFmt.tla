------------------------------ MODULE NumFmt ------------------------------
(***************************************************************************)
(* Decimal rendering of numbers under the fixed-decimal number formats     *)
(*   0   0.0 .. 0.000000   #,##0   #,##0.0 ..   0%   0.0% ..               *)
(*                                                                         *)
(* A number is its shortest decimal form, as digit sequences:              *)
(*   [neg |-> BOOLEAN, int |-> digits without leading zeros (<<0>> for 0), *)
(*    frac |-> digits after the point without trailing zeros]              *)
(* A pattern is [k |-> decimals, th |-> thousands separators, pct |-> %].  *)
(*                                                                         *)
(* RoundHalfAway works on the digits only (cut after k decimals, look at   *)
(* the next digit, propagate the carry with an odometer increment that may *)
(* grow the integer part); Fmt builds the text.  The module is also a      *)
(* small state machine -- a fixed-width decimal odometer counting n = 0,   *)
(* 1, 2, .. in units of 10^-F -- whose invariants tie the digit-level      *)
(* operators to integer arithmetic:                                        *)
(*   value(RoundHalfAway(n / 10^F, k)) * 10^k = (n*10^k + 10^F/2) div 10^F *)
(* The same operators are the oracle of the conformance check              *)
(* (Trace_NumFmt).                                                         *)
(***************************************************************************)
EXTENDS Integers, Sequences, TLC

CONSTANTS I,        \* integer digits of the odometer
          F,        \* fraction digits of the odometer
          KMax,     \* patterns with 0..KMax decimals
          Block     \* the odometer is checked in blocks of Block numbers (parallel initial states)

DC == <<"0","1","2","3","4","5","6","7","8","9">>

Zeros(n) == [i \in 1..n |-> 0]

RECURSIVE Pow10(_)
Pow10(e) == IF e = 0 THEN 1 ELSE 10 * Pow10(e - 1)

RECURSIVE Concat(_)
Concat(chars) == IF chars = <<>> THEN "" ELSE Head(chars) \o Concat(Tail(chars))

DigitChars(ds) == [i \in 1..Len(ds) |-> DC[ds[i] + 1]]
DigitsText(ds) == Concat(DigitChars(ds))

RECURSIVE StripLeft(_)
StripLeft(ds) == IF ds # <<>> /\ Head(ds) = 0 THEN StripLeft(Tail(ds)) ELSE ds
RECURSIVE StripRight(_)
StripRight(ds) == IF ds # <<>> /\ ds[Len(ds)] = 0 THEN StripRight(SubSeq(ds, 1, Len(ds) - 1)) ELSE ds
NormInt(ds) == LET t == StripLeft(ds) IN IF t = <<>> THEN <<0>> ELSE t

IsDigits(ds) == \A i \in DOMAIN ds : ds[i] \in 0..9
IsNumber(x) == /\ x.neg \in BOOLEAN
               /\ IsDigits(x.int) /\ IsDigits(x.frac)
               /\ x.int # <<>> /\ x.int = NormInt(x.int)
               /\ x.frac = StripRight(x.frac)
IsZero(x) == x.int = <<0>> /\ x.frac = <<>>
(* significant digits of the shortest form *)
SigDigits(x) == IF x.int # <<0>> THEN Len(StripRight(x.int \o x.frac)) ELSE Len(StripLeft(x.frac))

(* odometer increment with carry; grows by a leading 1 on overflow (9..9 -> 10..0) *)
RECURSIVE Inc(_)
Inc(ds) == IF ds = <<>> THEN <<1>>
           ELSE IF ds[Len(ds)] < 9 THEN [ds EXCEPT ![Len(ds)] = @ + 1]
           ELSE Append(Inc(SubSeq(ds, 1, Len(ds) - 1)), 0)

(* x * 100: the point moves two places to the right *)
Shift2(x) ==
  LET f == IF Len(x.frac) < 2 THEN x.frac \o Zeros(2 - Len(x.frac)) ELSE x.frac
  IN  [neg |-> x.neg, int |-> NormInt(x.int \o SubSeq(f, 1, 2)), frac |-> SubSeq(f, 3, Len(f))]

(* |x| rounded to exactly k decimals, half away from zero, sign kept; carries enter the integer part *)
RoundHalfAway(x, k) ==
  IF Len(x.frac) <= k
  THEN [neg |-> x.neg, int |-> x.int, frac |-> x.frac \o Zeros(k - Len(x.frac))]
  ELSE LET kept == x.int \o SubSeq(x.frac, 1, k)
           r    == IF x.frac[k + 1] >= 5 THEN Inc(kept) ELSE kept
       IN  [neg |-> x.neg, int |-> SubSeq(r, 1, Len(r) - k), frac |-> SubSeq(r, Len(r) - k + 1, Len(r))]

(* separators every three integer digits, as characters *)
RECURSIVE Group3Chars(_)
Group3Chars(ds) == IF Len(ds) <= 3 THEN DigitChars(ds)
                   ELSE Group3Chars(SubSeq(ds, 1, Len(ds) - 3)) \o <<",">> \o DigitChars(SubSeq(ds, Len(ds) - 2, Len(ds)))

SignChars(neg) == IF neg THEN <<"-">> ELSE <<>>

(* the formatted value, as characters and as text *)
FmtChars(x, p) ==
  LET r == RoundHalfAway(IF p.pct THEN Shift2(x) ELSE x, p.k)
  IN  SignChars(r.neg)
      \o (IF p.th THEN Group3Chars(r.int) ELSE DigitChars(r.int))
      \o (IF p.k > 0 THEN <<".">> \o DigitChars(r.frac) ELSE <<>>)
      \o (IF p.pct THEN <<"%">> ELSE <<>>)
Fmt(x, p) == Concat(FmtChars(x, p))

(* the pattern's format code and the number's plain text (shortest decimal form) *)
PatText(p) == (IF p.th THEN "#,##0" ELSE "0")
              \o (IF p.k > 0 THEN "." \o DigitsText(Zeros(p.k)) ELSE "")
              \o (IF p.pct THEN "%" ELSE "")
NumText(x) == Concat(SignChars(x.neg)) \o DigitsText(x.int)
              \o (IF x.frac # <<>> THEN "." \o DigitsText(x.frac) ELSE "")

---------------------------------------------------------------------------
(* integer value of a digit sequence (must fit 31 bits) *)
RECURSIVE Val(_)
Val(ds) == IF ds = <<>> THEN 0 ELSE 10 * Val(SubSeq(ds, 1, Len(ds) - 1)) + ds[Len(ds)]

(* the n-th number of the odometer in closed form: W digits, most significant first *)
W == I + F
FixedDigits(n) == [i \in 1..W |-> (n \div Pow10(W - i)) % 10]

(* fixed-width successor: carry leftwards, wrap to 0..0 after 9..9 *)
RECURSIVE IncFixed(_)
IncFixed(ds) == IF ds = <<>> THEN <<>>
                ELSE IF ds[Len(ds)] < 9 THEN [ds EXCEPT ![Len(ds)] = @ + 1]
                ELSE Append(IncFixed(SubSeq(ds, 1, Len(ds) - 1)), 0)

Num(d)   == [neg |-> FALSE, int |-> NormInt(SubSeq(d, 1, I)), frac |-> StripRight(SubSeq(d, I + 1, W))]
Neg(x)   == [x EXCEPT !.neg = TRUE]
RVal(d, k) == LET r == RoundHalfAway(Num(d), k) IN Val(r.int \o r.frac)

VARIABLES n, ds
vars == <<n, ds>>

Last == Pow10(W) - 1
Init == /\ n \in {b * Block : b \in 0..(Last \div Block)}
        /\ ds = FixedDigits(n)
Tick == /\ (n + 1) % Block # 0
        /\ n < Last
        /\ n' = n + 1
        /\ ds' = IncFixed(ds)
Next == Tick
Spec == Init /\ [][Next]_vars

Patterns == [k : 0..KMax, th : BOOLEAN, pct : BOOLEAN]

TypeOK     == n \in 0..Last /\ Len(ds) = W /\ IsDigits(ds) /\ IsNumber(Num(ds))
ClosedForm == ds = FixedDigits(n) /\ Val(ds) = n
(* the successor of the last number of a block is the closed form of the next block's first number *)
HandOver   == ((n + 1) % Block = 0 /\ n < Last) => IncFixed(ds) = FixedDigits(n + 1)

(* RoundHalfAway on digits = floor(|x| * 10^k + 1/2) / 10^k in integer arithmetic *)
RoundDef ==
  \A k \in 0..KMax :
    LET r == RoundHalfAway(Num(ds), k)
    IN  /\ Len(r.frac) = k
        /\ r.int = NormInt(r.int)
        /\ Val(r.int \o r.frac) = IF k < F THEN (n * Pow10(k) + Pow10(F) \div 2) \div Pow10(F)
                                  ELSE n * Pow10(k - F)

(* percentages: rounding 100*x to k decimals yields the digits of rounding x to k+2 decimals *)
PctDef ==
  \A k \in 0..(KMax - 2) :
    LET a == RoundHalfAway(Shift2(Num(ds)), k)
        b == RoundHalfAway(Num(ds), k + 2)
    IN  /\ IsNumber([neg |-> FALSE, int |-> Shift2(Num(ds)).int, frac |-> Shift2(Num(ds)).frac])
        /\ Len(a.frac) = k
        /\ NormInt(a.int \o a.frac) = NormInt(b.int \o b.frac)

(* separators: every fourth character from the right is a comma, nothing else is; digits unchanged *)
GroupOK ==
  LET d == NormInt(ds \o ds \o ds)          \* up to 3*W digits: several groups
      g == Group3Chars(d)
  IN  /\ Len(g) = Len(d) + (Len(d) - 1) \div 3
      /\ \A i \in 1..Len(g) : (g[Len(g) + 1 - i] = ",") <=> (i % 4 = 0)
      /\ SelectSeq(g, LAMBDA c : c # ",") = DigitChars(d)

(* shape of the text: sign first and only for negatives, k digits after the point, % last *)
FmtShape ==
  \A p \in Patterns :
    LET x == Num(ds)
        t == FmtChars(x, p)
        r == RoundHalfAway(IF p.pct THEN Shift2(x) ELSE x, p.k)
        body == IF p.pct THEN SubSeq(t, 1, Len(t) - 1) ELSE t
    IN  /\ FmtChars(Neg(x), p) = <<"-">> \o t
        /\ p.pct => t[Len(t)] = "%"
        /\ p.k > 0 => /\ body[Len(body) - p.k] = "."
                      /\ SubSeq(body, Len(body) - p.k + 1, Len(body)) = DigitChars(r.frac)
        /\ SelectSeq(t, LAMBDA c : c \notin {",", ".", "%"}) = DigitChars(r.int \o r.frac)
        /\ (~p.th) => \A i \in DOMAIN t : t[i] # ","

(* rounding is monotone and never moves a number by more than half a unit of the last place *)
Monotone == [][\A k \in 0..KMax : RVal(ds', k) >= RVal(ds, k)]_vars
HalfUnit ==
  \A k \in 0..F :
    LET d == RVal(ds, k) * Pow10(F - k) - n IN 2 * d <= Pow10(F - k) /\ 2 * d > - Pow10(F - k)
=============================================================================
