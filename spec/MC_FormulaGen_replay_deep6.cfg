CONSTANTS MaxRow = 1048576 MaxCol = 16384 EmitReplay = TRUE MaxToks = 6
  UsePercent = TRUE UseParens = TRUE
  Operands <- OperandsSmall FnNames <- FnsSmall InfixOps <- OpsOne PrefixOps <- PreBoth BlankRuns <- Blanks1
SPECIFICATION GenSpec
INVARIANTS Emit
CHECK_DEADLOCK FALSE
