-------------------------------- MODULE Meta --------------------------------
(***************************************************************************)
(* X01 (extension domain "Meta"): per-sheet settings and workbook-level    *)
(* metadata of a workbook - setters and getters, sheet-list operations,    *)
(* save + load (eager, lazy with and without materialising the sheets).    *)
(*                                                                         *)
(* PROPERTIES (what a user of the library relies on)                       *)
(*  P1 get-after-set   after a setter of aspect a on sheet s (or of a      *)
(*                     workbook property) the getter of a returns the      *)
(*                     value that was set.                                 *)
(*  P2 independence    that setter changes no other aspect of sheet s, no  *)
(*                     aspect of another sheet, no workbook property, and  *)
(*                     not the file saved before.                          *)
(*  P3 round trip      Load(Save(w)) shows, for every sheet and aspect and *)
(*                     every workbook property, the value w had when it    *)
(*                     was saved - whether loaded eagerly, or lazily and   *)
(*                     then materialised (all or some sheets), and also    *)
(*                     after a further save of a workbook whose sheets are *)
(*                     partly still raw.  A raw sheet shows its name and   *)
(*                     state only; materialising is invisible otherwise.   *)
(*  P4 file            the saved package states the same values to an      *)
(*                     independent reader that applies the defaults of     *)
(*                     ECMA-376 to absent attributes (sheet state in the   *)
(*                     workbook part; tabColor, sheetView, pane, selection,*)
(*                     sheetProtection, pageSetup, printOptions,           *)
(*                     pageMargins, headerFooter, hidden rows / columns,   *)
(*                     autoFilter, dataValidations, conditionalFormatting  *)
(*                     with the dxf it refers to; docProps core / app /    *)
(*                     custom); the activeCellId of a selection designates *)
(*                     a range of its sqref that contains the active cell  *)
(*                     (ECMA-376 Part 1, 18.3.1.78).                       *)
(*  P5 sheet list      new_sheet appends a sheet with default settings,    *)
(*                     remove_sheet(i) removes exactly sheet i, renaming   *)
(*                     changes the name only, set_active_sheet changes the *)
(*                     active tab only: every other sheet keeps all its    *)
(*                     aspects (they move with their sheet).               *)
(*  P6 other files     for a file written by another application: every     *)
(*                     value the file states for one of these aspects is   *)
(*                     what the getter shows after a load (an attribute    *)
(*                     the file does not state is shown as never set), and *)
(*                     load + save states to an independent reader what    *)
(*                     the original file stated (checked on the files of   *)
(*                     tests/test_files, opened eagerly and lazily).       *)
(* Not demanded: any order of validations / conditional formats, any       *)
(* encoding of the file beyond the values it states, behaviour for values  *)
(* outside the schema's ranges.                                            *)
(*                                                                         *)
(* STATE  wb = [sheets, active, props, custom]; a sheet is a record of     *)
(* aspect values + mat (FALSE: still raw after a lazy load).  Optional     *)
(* attributes whose ECMA default differs from what the getter shows when   *)
(* nothing was set are three-valued: -1 = never set (getter shows 0 /      *)
(* FALSE, the file says nothing, a reader assumes the ECMA default),       *)
(* else the value (for flags 0 / 1).  file = <<>> or <<the content saved   *)
(* last>>.  Every action is wb' = <Op>P(wb, args) with a plain operator.   *)
(*                                                                         *)
(* Design = "own": a raw sheet carries its own part (intended).            *)
(* Design = "positional" (deviant, MC_Meta_deviant.cfg): a raw sheet is    *)
(* saved from the part that has its POSITION in the file loaded last; TLC  *)
(* refutes RoundTrip for it - the vacuity guard of P3 / P5.                *)
(***************************************************************************)
EXTENDS Naturals, Integers, Sequences, FiniteSets, TLC

CONSTANT Design

VARIABLES wb, file, last
vars == <<wb, file, last>>

FlagKeys == {"sheet", "objects", "scenarios", "formatCells", "formatColumns", "formatRows", "insertColumns", "insertRows",
             "insertHyperlinks", "deleteColumns", "deleteRows", "selectLocked", "selectUnlocked", "sort", "autoFilter",
             "pivotTables"}
PropKeys == {"title", "subject", "creator", "keywords", "description", "lastmod", "category", "version", "revision",
             "created", "modified", "manager", "company"}
PmKeys   == {"l", "r", "t", "b", "h", "f"}
PsNumKeys == {"paper", "scale", "fitw", "fith"}

(* ------------------------------------------------------------- defaults *)
NoTok       == [alg |-> "", hash |-> "", salt |-> "", spin |-> 0, legacy |-> ""]
NoFlags     == [k \in FlagKeys |-> -1]
DefaultPs   == [orient |-> "default", paper |-> -1, scale |-> -1, fitw |-> -1, fith |-> -1]
DefaultPm   == [k \in PmKeys |-> ""]          \* "": never set (the getters show 0)
DefaultView == [zoom |-> -1, zoomn |-> -1, grid |-> -1, mode |-> "", tabsel |-> FALSE, tl |-> "", pane |-> <<>>, sel |-> <<>>]
NewSheet(nm) == [name |-> nm, mat |-> TRUE, state |-> "visible", sstate |-> "", acell |-> "", tab |-> <<>>, views |-> <<>>,
                 prot |-> <<>>, ps |-> DefaultPs, po |-> [hc |-> FALSE, vc |-> FALSE], pm |-> DefaultPm,
                 hf |-> [h |-> "", f |-> ""], hrows |-> {}, hcols |-> {}, af |-> <<>>, dvs |-> {}, cfs |-> {}]
DefaultProps == [k \in PropKeys |-> IF k \in {"created", "modified"} THEN "2006-09-16T00:00:00Z" ELSE ""]
EmptyWb == [sheets |-> <<>>, active |-> 0, props |-> DefaultProps, custom |-> <<>>]

RECURSIVE InitSheets(_, _, _)
InitSheets(w, nms, k) == IF k > Len(nms) THEN w ELSE InitSheets([w EXCEPT !.sheets = Append(@, NewSheet(nms[k]))], nms, k + 1)
(* new_file(): the first sheet has a sheet view and the active cell A1 *)
InitWb(nms, base) ==
  LET w == InitSheets(EmptyWb, nms, 1) IN
  IF base = "new_file" /\ Len(nms) >= 1
  THEN [w EXCEPT !.sheets[1].views = <<DefaultView>>, !.sheets[1].acell = "A1"] ELSE w

NameUsed(w, nm) == \E i \in DOMAIN w.sheets : w.sheets[i].name = nm

(* ------------------------------------------------ sheet-level operators *)
(* every sheet setter goes through get_sheet_mut, which materialises the sheet *)
OnSheet(w, i, sh) == [w EXCEPT !.sheets[i] = [sh EXCEPT !.mat = TRUE]]
(* the first sheet view, created with default values when the sheet has none *)
V1(sh) == IF sh.views = <<>> THEN DefaultView ELSE sh.views[1]
WithV1(sh, v) == [sh EXCEPT !.views = IF @ = <<>> THEN <<v>> ELSE [@ EXCEPT ![1] = v]]
P1(sh) == IF sh.prot = <<>> THEN [flags |-> NoFlags, tok |-> NoTok] ELSE sh.prot[1]

SetStateP(w, i, v)      == OnSheet(w, i, [w.sheets[i] EXCEPT !.state = v])
SetStateStrP(w, i, v)   == OnSheet(w, i, [w.sheets[i] EXCEPT !.sstate = v])
SetActiveCellP(w, i, v) == OnSheet(w, i, [w.sheets[i] EXCEPT !.acell = v])
SetTabP(w, i, v)        == OnSheet(w, i, [w.sheets[i] EXCEPT !.tab = <<v>>])
ClearTabP(w, i)         == OnSheet(w, i, [w.sheets[i] EXCEPT !.tab = <<>>])
SetViewP(w, i, k, v)    == OnSheet(w, i, WithV1(w.sheets[i], [V1(w.sheets[i]) EXCEPT ![k] = v]))
SetPaneP(w, i, p)       == SetViewP(w, i, "pane", <<p>>)
AddSelP(w, i, x)        == SetViewP(w, i, "sel", Append(V1(w.sheets[i]).sel, x))
(* flags: a function from some flag keys to BOOLEAN *)
SetProtP(w, i, fl) ==
  OnSheet(w, i, [w.sheets[i] EXCEPT !.prot = <<[P1(w.sheets[i]) EXCEPT
      !.flags = [k \in FlagKeys |-> IF k \in DOMAIN fl THEN (IF fl[k] THEN 1 ELSE 0) ELSE @[k]]]>>])
SetProtPwP(w, i, tok)   == OnSheet(w, i, [w.sheets[i] EXCEPT !.prot = <<[P1(w.sheets[i]) EXCEPT !.tok = tok]>>])
ClearProtP(w, i)        == OnSheet(w, i, [w.sheets[i] EXCEPT !.prot = <<>>])
SetOrientP(w, i, v)     == OnSheet(w, i, [w.sheets[i] EXCEPT !.ps.orient = v])
SetPsNumP(w, i, k, v)   == OnSheet(w, i, [w.sheets[i] EXCEPT !.ps[k] = v])
SetPoP(w, i, k, v)      == OnSheet(w, i, [w.sheets[i] EXCEPT !.po[k] = v])
SetPmP(w, i, k, v)      == OnSheet(w, i, [w.sheets[i] EXCEPT !.pm[k] = v])
SetHfP(w, i, k, v)      == OnSheet(w, i, [w.sheets[i] EXCEPT !.hf[k] = v])
SetRowHiddenP(w, i, r, v) == OnSheet(w, i, [w.sheets[i] EXCEPT !.hrows = IF v THEN @ \cup {r} ELSE @ \ {r}])
SetColHiddenP(w, i, c, v) == OnSheet(w, i, [w.sheets[i] EXCEPT !.hcols = IF v THEN @ \cup {c} ELSE @ \ {c}])
SetAfP(w, i, v)         == OnSheet(w, i, [w.sheets[i] EXCEPT !.af = <<v>>])
ClearAfP(w, i)          == OnSheet(w, i, [w.sheets[i] EXCEPT !.af = <<>>])
AddDvP(w, i, d)         == OnSheet(w, i, [w.sheets[i] EXCEPT !.dvs = @ \cup {d}])
ClearDvsP(w, i)         == OnSheet(w, i, [w.sheets[i] EXCEPT !.dvs = {}])
AddCfP(w, i, x)         == OnSheet(w, i, [w.sheets[i] EXCEPT !.cfs = @ \cup {x}])
MaterialiseP(w, i)      == OnSheet(w, i, w.sheets[i])

(* -------------------------------------------- workbook-level operators *)
SetPropP(w, k, v)    == [w EXCEPT !.props[k] = v]
AddCustomP(w, c)     == [w EXCEPT !.custom = Append(@, c)]
(* new_sheet / set_sheet_name refuse a name that a sheet already has *)
AddSheetP(w, nm)     == IF NameUsed(w, nm) THEN w ELSE [w EXCEPT !.sheets = Append(@, NewSheet(nm))]
RenameP(w, i, nm)    == IF NameUsed(w, nm) THEN w ELSE [w EXCEPT !.sheets[i].name = nm]
(* remove_sheet keeps the active tab inside the remaining sheets *)
RemoveSheetP(w, i)   == [w EXCEPT !.sheets = SubSeq(@, 1, i - 1) \o SubSeq(@, i + 1, Len(@)),
                                  !.active = IF @ >= Len(w.sheets) - 1 /\ Len(w.sheets) >= 2 THEN Len(w.sheets) - 2 ELSE @]
SetActiveP(w, k)     == [w EXCEPT !.active = k]

(* ------------------------------------------------------------ save, load *)
Body(sh) == [sh EXCEPT !.mat = TRUE]
(* what Save writes for sheet i *)
Written(w, f, i) ==
  IF w.sheets[i].mat \/ Design = "own" THEN Body(w.sheets[i])
  ELSE (* deviant: the part at the same position of the file loaded last, under the current name / state *)
       IF f # <<>> /\ i \in DOMAIN f[1].sheets
       THEN [f[1].sheets[i] EXCEPT !.name = w.sheets[i].name, !.state = w.sheets[i].state]
       ELSE Body(NewSheet(w.sheets[i].name))
SaveP(w, f) == [sheets |-> [i \in DOMAIN w.sheets |-> Written(w, f, i)], active |-> w.active, props |-> w.props,
                custom |-> w.custom]
LoadP(c, mode) == [sheets |-> [i \in DOMAIN c.sheets |-> [c.sheets[i] EXCEPT !.mat = (mode = "eager")]],
                   active |-> c.active, props |-> c.props, custom |-> c.custom]
Content(w) == [sheets |-> [i \in DOMAIN w.sheets |-> Body(w.sheets[i])], active |-> w.active, props |-> w.props,
               custom |-> w.custom]

(* ---------------------------------------------------------------- actions *)
Sh == DOMAIN wb.sheets
Keep == UNCHANGED file
(* a setter of one aspect of one sheet: last names the sheet and the aspect *)
Set(i, asp, w2) == i \in Sh /\ wb' = w2 /\ Keep /\ last' = [op |-> "set", s |-> i, asp |-> asp]

SetState(i, v)        == Set(i, "state", SetStateP(wb, i, v))
SetStateStr(i, v)     == Set(i, "sstate", SetStateStrP(wb, i, v))
SetActiveCell(i, v)   == Set(i, "acell", SetActiveCellP(wb, i, v))
SetTab(i, v)          == Set(i, "tab", SetTabP(wb, i, v))
ClearTab(i)           == Set(i, "tab", ClearTabP(wb, i))
SetView(i, k, v)      == Set(i, k, SetViewP(wb, i, k, v))
SetPane(i, p)         == Set(i, "pane", SetPaneP(wb, i, p))
AddSel(i, x)          == Set(i, "sel", AddSelP(wb, i, x))
SetProt(i, fl)        == Set(i, "prot", SetProtP(wb, i, fl))
SetProtPw(i, tok)     == Set(i, "prot", SetProtPwP(wb, i, tok))
ClearProt(i)          == Set(i, "prot", ClearProtP(wb, i))
SetOrient(i, v)       == Set(i, "orient", SetOrientP(wb, i, v))
SetPsNum(i, k, v)     == Set(i, k, SetPsNumP(wb, i, k, v))
SetPo(i, k, v)        == Set(i, k, SetPoP(wb, i, k, v))
SetPm(i, k, v)        == Set(i, "pm." \o k, SetPmP(wb, i, k, v))
SetHf(i, k, v)        == Set(i, "hf." \o k, SetHfP(wb, i, k, v))
SetRowHidden(i, r, v) == Set(i, "hrows", SetRowHiddenP(wb, i, r, v))
SetColHidden(i, c, v) == Set(i, "hcols", SetColHiddenP(wb, i, c, v))
SetAf(i, v)           == Set(i, "af", SetAfP(wb, i, v))
ClearAf(i)            == Set(i, "af", ClearAfP(wb, i))
AddDv(i, d)           == d \notin wb.sheets[i].dvs /\ Set(i, "dvs", AddDvP(wb, i, d))
ClearDvs(i)           == Set(i, "dvs", ClearDvsP(wb, i))
AddCf(i, x)           == x \notin wb.sheets[i].cfs /\ Set(i, "cfs", AddCfP(wb, i, x))
Materialise(i)        == Set(i, "mat", MaterialiseP(wb, i))

SetProp(k, v)   == wb' = SetPropP(wb, k, v) /\ Keep /\ last' = [op |-> "prop", k |-> k]
AddCustom(c)    == wb' = AddCustomP(wb, c) /\ Keep /\ last' = [op |-> "custom"]
AddSheet(nm)    == wb' = AddSheetP(wb, nm) /\ Keep /\ last' = [op |-> "addsheet", name |-> nm]
Rename(i, nm)   == i \in Sh /\ wb' = RenameP(wb, i, nm) /\ Keep /\ last' = [op |-> "rename", s |-> i, name |-> nm]
RemoveSheet(i)  == i \in Sh /\ Len(wb.sheets) >= 2 /\ wb' = RemoveSheetP(wb, i) /\ Keep /\ last' = [op |-> "remove", s |-> i]
SetActive(k)    == wb' = SetActiveP(wb, k) /\ Keep /\ last' = [op |-> "active"]
Save            == file' = <<SaveP(wb, file)>> /\ UNCHANGED wb /\ last' = [op |-> "save"]
Load(mode)      == file # <<>> /\ wb' = LoadP(file[1], mode) /\ Keep /\ last' = [op |-> "load", mode |-> mode]

(* ------------------------------------------------------------- properties *)
(* the aspects of a sheet, one value each (view aspects of a sheet without a view: the defaults) *)
ViewAspects == {"zoom", "zoomn", "grid", "mode", "tabsel", "tl", "pane", "sel"}
Aspects == {"name", "mat", "state", "sstate", "acell", "tab", "hasview", "prot", "orient", "hc", "vc", "hf.h", "hf.f",
            "hrows", "hcols", "af", "dvs", "cfs"} \cup ViewAspects \cup PsNumKeys \cup {"pm." \o k : k \in PmKeys}
Aspect(sh, a) ==
  CASE a \in ViewAspects -> V1(sh)[a]
    [] a = "hasview"     -> sh.views # <<>>
    [] a = "orient"      -> sh.ps.orient
    [] a \in PsNumKeys   -> sh.ps[a]
    [] a \in {"hc", "vc"} -> sh.po[a]
    [] a = "pm.l" -> sh.pm.l [] a = "pm.r" -> sh.pm.r [] a = "pm.t" -> sh.pm.t
    [] a = "pm.b" -> sh.pm.b [] a = "pm.h" -> sh.pm.h [] a = "pm.f" -> sh.pm.f
    [] a = "hf.h" -> sh.hf.h [] a = "hf.f" -> sh.hf.f
    [] OTHER -> sh[a]
(* P2: a setter of aspect a of sheet s leaves every other aspect of every sheet, the workbook properties and the saved
   file as they were (the sheet it touches is materialised; a view is created when a view aspect is set) *)
IndepStep ==
     (last'.op = "set" =>
       /\ DOMAIN wb'.sheets = DOMAIN wb.sheets
       /\ \A j \in DOMAIN wb.sheets, b \in Aspects :
            (j = last'.s /\ b \in {last'.asp, "mat", "hasview"}) \/ Aspect(wb'.sheets[j], b) = Aspect(wb.sheets[j], b)
       /\ wb'.sheets[last'.s].mat
       /\ (last'.asp \notin ViewAspects => Aspect(wb'.sheets[last'.s], "hasview") = Aspect(wb.sheets[last'.s], "hasview"))
       /\ wb'.active = wb.active /\ wb'.props = wb.props /\ wb'.custom = wb.custom /\ file' = file)
Independence == [][IndepStep]_vars
(* P5: sheet-list operations move the aspects with their sheet *)
ListStep ==
     /\ last'.op = "addsheet" =>
          /\ \A j \in DOMAIN wb.sheets : wb'.sheets[j] = wb.sheets[j]
          /\ IF NameUsed(wb, last'.name) THEN wb' = wb
             ELSE Len(wb'.sheets) = Len(wb.sheets) + 1 /\ wb'.sheets[Len(wb'.sheets)] = NewSheet(last'.name)
     /\ last'.op = "remove" =>
          /\ Len(wb'.sheets) = Len(wb.sheets) - 1
          /\ \A j \in DOMAIN wb'.sheets : wb'.sheets[j] = wb.sheets[IF j < last'.s THEN j ELSE j + 1]
          /\ wb'.active < Len(wb'.sheets) \/ wb'.active = wb.active
     /\ last'.op = "rename" =>
          /\ DOMAIN wb'.sheets = DOMAIN wb.sheets
          /\ \A j \in DOMAIN wb.sheets : [wb'.sheets[j] EXCEPT !.name = ""] = [wb.sheets[j] EXCEPT !.name = ""]
          /\ \A j \in DOMAIN wb.sheets : j # last'.s => wb'.sheets[j].name = wb.sheets[j].name
     /\ last'.op \in {"addsheet", "remove", "rename", "active", "prop", "custom"} => file' = file
     /\ last'.op \in {"addsheet", "rename", "active"} => (wb'.props = wb.props /\ wb'.custom = wb.custom)
     /\ last'.op \in {"prop", "custom", "active"} => wb'.sheets = wb.sheets
ListOps == [][ListStep]_vars
(* P3: after a load the workbook is the one that was saved, whatever is still raw; a save stores the content *)
RoundTrip == /\ last.op = "load" => (file # <<>> /\ Content(wb) = file[1])
             /\ last.op = "save" => (file # <<>> /\ file[1] = Content(wb))
(* sheet names stay unique; a workbook never loses its last sheet through the operations modelled *)
WellFormed == /\ \A i, j \in DOMAIN wb.sheets : wb.sheets[i].name = wb.sheets[j].name => i = j
              /\ \A i \in DOMAIN wb.sheets : Len(wb.sheets[i].views) <= 1 /\ Len(wb.sheets[i].tab) <= 1
                                             /\ Len(wb.sheets[i].prot) <= 1 /\ Len(wb.sheets[i].af) <= 1
              /\ (file # <<>> => \A i \in DOMAIN file[1].sheets : file[1].sheets[i].mat)

(* ------------------------------------------------- projections (observers) *)
(* what the public getters show *)
N0(x) == IF x < 0 THEN 0 ELSE x
(* an absent activePane / pane / operator ("" in the model; only files written by others have them absent) is shown by the
   getters as bottomRight / lessThan, while ECMA-376 says topLeft / between *)
PaneOr(p, d) == IF p = "" THEN d ELSE p
ViewPanes(v, d) == [pane |-> [j \in DOMAIN v.pane |-> [v.pane[j] EXCEPT !.ap = PaneOr(@, d)]],
                    sel  |-> [j \in DOMAIN v.sel |-> [v.sel[j] EXCEPT !.pane = PaneOr(@, d)]]]
OpOr(o, d) == IF o = "" THEN d ELSE o
GetView(v) == [zoom |-> N0(v.zoom), zoomn |-> N0(v.zoomn), grid |-> v.grid = 1, mode |-> IF v.mode = "" THEN "normal" ELSE v.mode,
               tabsel |-> v.tabsel, tl |-> v.tl, pane |-> ViewPanes(v, "bottomRight").pane, sel |-> ViewPanes(v, "bottomRight").sel]
GetProt(p) == [flags |-> [k \in FlagKeys |-> p.flags[k] = 1], tok |-> p.tok]
GetMat(sh) == [sh EXCEPT !.views = [k \in DOMAIN @ |-> GetView(@[k])], !.prot = [k \in DOMAIN @ |-> GetProt(@[k])],
                         !.dvs = {[d EXCEPT !.op = OpOr(@, "lessThan")] : d \in @},
                         !.cfs = {[x EXCEPT !.rules = [j \in DOMAIN @ |-> [@[j] EXCEPT !.op = OpOr(@, "lessThan")]]] : x \in @},
                         !.ps = [orient |-> @.orient, paper |-> N0(@.paper), scale |-> N0(@.scale), fitw |-> N0(@.fitw),
                                 fith |-> N0(@.fith)],
                         !.pm = [k \in PmKeys |-> IF @[k] = "" THEN "0" ELSE @[k]]]
(* a raw sheet shows its name and state only *)
GetSheet(sh) == IF sh.mat THEN GetMat(sh) ELSE [GetMat(NewSheet(sh.name)) EXCEPT !.mat = FALSE, !.state = sh.state]
GetCustom(c) == [name |-> c.name, kind |-> IF c.kind \in {"str", "date"} THEN "text" ELSE c.kind,
                 v |-> CASE c.kind = "num" -> ToString(c.n) [] c.kind = "bool" -> (IF c.b THEN "true" ELSE "false") [] OTHER -> c.v,
                 n |-> IF c.kind = "num" THEN c.n ELSE 0, b |-> IF c.kind = "bool" THEN c.b ELSE FALSE]
GetWb(w) == [sheets |-> [i \in DOMAIN w.sheets |-> GetSheet(w.sheets[i])], active |-> w.active, props |-> w.props,
             custom |-> [k \in DOMAIN w.custom |-> GetCustom(w.custom[k])]]

(* what an independent reader of the saved package sees: ECMA-376 defaults for what the file does not say *)
FlagDefault(k) == k \notin {"sheet", "objects", "scenarios", "selectLocked", "selectUnlocked"}
Dflt(x, d) == IF x < 0 THEN d ELSE x
EffView(v) == [zoom |-> Dflt(v.zoom, 100), zoomn |-> Dflt(v.zoomn, 0), grid |-> v.grid # 0, mode |-> IF v.mode = "" THEN "normal" ELSE v.mode,
               tabsel |-> v.tabsel, tl |-> v.tl, pane |-> ViewPanes(v, "topLeft").pane,
               sel |-> [j \in DOMAIN v.sel |-> [ViewPanes(v, "topLeft").sel[j] EXCEPT !.sqref = IF @ = "" THEN "A1" ELSE @]]]
EffProt(p) == [flags |-> [k \in FlagKeys |-> IF p.flags[k] < 0 THEN FlagDefault(k) ELSE p.flags[k] = 1], tok |-> p.tok]
EffSheet(sh) ==
  [name |-> sh.name, state |-> sh.state, tab |-> sh.tab, views |-> [k \in DOMAIN sh.views |-> EffView(sh.views[k])],
   prot |-> [k \in DOMAIN sh.prot |-> EffProt(sh.prot[k])],
   ps |-> [orient |-> sh.ps.orient, paper |-> Dflt(sh.ps.paper, 1), scale |-> Dflt(sh.ps.scale, 100),
           fitw |-> Dflt(sh.ps.fitw, 1), fith |-> Dflt(sh.ps.fith, 1)],
   po |-> sh.po,
   (* pageMargins has no optional attribute: once one margin is set the element states all six *)
   pm |-> IF \A k \in PmKeys : sh.pm[k] = "" THEN sh.pm ELSE [k \in PmKeys |-> IF sh.pm[k] = "" THEN "0" ELSE sh.pm[k]],
   hf |-> sh.hf, hrows |-> sh.hrows, hcols |-> sh.hcols, af |-> sh.af,
   dvs |-> {[d EXCEPT !.op = OpOr(@, "between")] : d \in sh.dvs}, cfs |-> sh.cfs]
EffCustom(c) == [name |-> c.name, kind |-> c.kind,
                 v |-> CASE c.kind = "num" -> ToString(c.n) [] c.kind = "bool" -> (IF c.b THEN "true" ELSE "false") [] OTHER -> c.v]
EffWb(c) == [sheets |-> [i \in DOMAIN c.sheets |-> EffSheet(c.sheets[i])], active |-> c.active, props |-> c.props,
             custom |-> [k \in DOMAIN c.custom |-> EffCustom(c.custom[k])]]
=============================================================================
