CONSTANTS KeyMode = "concat" MaxAssign = 2 MaxSaves = 1 Pairs = TRUE Wide = FALSE EmitReplay = FALSE
SPECIFICATION MCSpec
VIEW View
INVARIANTS NoMerge Faithful
CHECK_DEADLOCK FALSE
