CONSTANTS KeyMode = "concat" NBooks = 1 PalKind = "full" MaxImport = 0 MaxAssign = 2 MaxSaves = 1 Pairs = TRUE Wide = FALSE EmitReplay = FALSE
SPECIFICATION MCSpec
VIEW View
INVARIANTS NoMerge Faithful
CHECK_DEADLOCK FALSE
