CONSTANTS KeyMode = "exact" NBooks = 2 PalKind = "full" MaxImport = 6 MaxAssign = 8 MaxSaves = 2 Pairs = FALSE Wide = TRUE EmitReplay = TRUE
SPECIFICATION MCSpec
INVARIANTS Emit Faithful DimsKept FaithfulFile NoMerge NoGrowth StableSizes WellFormed
CHECK_DEADLOCK FALSE
