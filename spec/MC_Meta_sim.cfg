CONSTANTS Design = "own" Depth = 30 MaxSheets = 3 Family = "all" Shape = "free" Wide = TRUE EmitReplay = TRUE
SPECIFICATION MCSpec
INVARIANTS Emit WellFormed RoundTrip
CHECK_DEADLOCK FALSE
