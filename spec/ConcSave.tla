------------------------------ MODULE ConcSave ------------------------------
(***************************************************************************)
(* C16: concurrent saves.  Each saver t walks through the linearisation    *)
(* points of make_buffer (the cfg(umya_verif) yield points of the library):*)
(*   begin -> reg* -> chk -> [dump] -> rels -> end -> done                  *)
(* reg   : lookup-or-append of the next text cell in a string table (one   *)
(*         atomic step: the library holds the table's write lock)          *)
(* chk   : emptiness read deciding whether the sharedStrings part is written*)
(* dump  : snapshot of the table into the package                          *)
(* rels  : read deciding whether workbook.xml.rels references the part     *)
(* Sharing = "private": the table belongs to the save (the library after   *)
(* the repair); "shared": savers of one group (a workbook and its clones)  *)
(* use one table - TLC refutes PartIffRel and NoForeign for it.            *)
(***************************************************************************)
EXTENDS Naturals, Sequences, FiniteSets, TLC

CONSTANTS Sharing

VARIABLES todo,       \* todo[t]: the text cells of the *loaded* sheets saver t writes, in writer order (never changes)
          grp,        \* grp[t]: the workbook family of saver t (never changes)
          base,       \* base[t]: the string table the save starts from: <<>>, or the table of the file the
                      \*          workbook was lazily loaded from while some of its sheets are still raw
          pc, nxt, table, idx, part, dump, rel
cvars == <<todo, grp, base, pc, nxt, table, idx, part, dump, rel>>
Savers == DOMAIN todo

TableOf(st, t) == IF Sharing = "shared" THEN st.grp[t] ELSE t
SeqSet(q) == {q[i] : i \in DOMAIN q}
Pos(q, s) == CHOOSE i \in DOMAIN q : q[i] = s

CInitWith(td, gr, bs) ==
         /\ todo = td /\ grp = gr /\ base = bs
         /\ pc = [t \in Savers |-> "begin"]
         /\ nxt = [t \in Savers |-> 1]
         /\ table = [k \in Savers |-> bs[k]]
         /\ idx = [t \in Savers |-> <<>>]
         /\ part = [t \in Savers |-> FALSE]
         /\ dump = [t \in Savers |-> <<>>]
         /\ rel = [t \in Savers |-> FALSE]

(* one step of saver t, as a function of the whole state (used by the trace specification too) *)
StepOf(st, t) ==
  LET k == TableOf(st, t) IN
  CASE st.pc[t] = "begin" -> [st EXCEPT !.pc[t] = IF Len(st.todo[t]) > 0 THEN "reg" ELSE "chk"]
    [] st.pc[t] = "reg" ->
         LET s == st.todo[t][st.nxt[t]]
             known == s \in SeqSet(st.table[k])
             tab == IF known THEN st.table[k] ELSE Append(st.table[k], s)
         IN [st EXCEPT !.table[k] = tab,
                       !.idx[t] = Append(@, Pos(tab, s)),
                       !.nxt[t] = @ + 1,
                       !.pc[t] = IF st.nxt[t] = Len(st.todo[t]) THEN "chk" ELSE "reg"]
    [] st.pc[t] = "chk" -> [st EXCEPT !.part[t] = st.table[k] # <<>>,
                                      !.pc[t] = IF st.table[k] # <<>> THEN "dump" ELSE "rels"]
    [] st.pc[t] = "dump" -> [st EXCEPT !.dump[t] = st.table[k], !.pc[t] = "rels"]
    [] st.pc[t] = "rels" -> [st EXCEPT !.rel[t] = st.table[k] # <<>>, !.pc[t] = "end"]
    [] st.pc[t] = "end" -> [st EXCEPT !.pc[t] = "done"]

State == [todo |-> todo, grp |-> grp, base |-> base, pc |-> pc, nxt |-> nxt, table |-> table, idx |-> idx, part |-> part, dump |-> dump, rel |-> rel]
Step(t) == /\ pc[t] # "done"
           /\ LET n == StepOf(State, t) IN
              /\ pc' = n.pc /\ nxt' = n.nxt /\ table' = n.table /\ idx' = n.idx
              /\ part' = n.part /\ dump' = n.dump /\ rel' = n.rel
              /\ UNCHANGED <<todo, grp, base>>
CNext == \E t \in Savers : Step(t)

(* ---- C16 ------------------------------------------------------------------ *)
Done(t) == pc[t] = "done"
(* every text cell of a finished saver shows its own string in that saver's file *)
OwnStrings == \A t \in Savers : Done(t) =>
                 /\ Len(idx[t]) = Len(todo[t])
                 /\ \A i \in DOMAIN todo[t] : idx[t][i] \in DOMAIN dump[t] /\ dump[t][idx[t][i]] = todo[t][i]
(* the part is written iff it is referenced: otherwise the package is corrupt *)
PartIffRel == \A t \in Savers : Done(t) => (part[t] <=> rel[t])
(* the file has the content a solo save would have: nothing of the other savers *)
NoForeign  == \A t \in Savers : Done(t) => SeqSet(dump[t]) = SeqSet(todo[t]) \cup SeqSet(base[t])
Terminates == <>(\A t \in Savers : Done(t))
=============================================================================
