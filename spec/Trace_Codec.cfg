CONSTANTS MaxCol = 16384 MaxRow = 1048576 LastName = 18278
SPECIFICATION TraceSpec
POSTCONDITION Consumed
CHECK_DEADLOCK FALSE
