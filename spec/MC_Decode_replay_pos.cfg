CONSTANTS MaxRow = 1048576 MaxCol = 16384 Wide = FALSE MaxOpts = 0 MaxSst = 0 MaxCells = 2 UseBlock = FALSE MaxAttrs = 0
  Variants = "pos" EmitReplay = TRUE
SPECIFICATION MCSpec
INVARIANTS Emit DecodeTotal PositionsImplied
CHECK_DEADLOCK FALSE
