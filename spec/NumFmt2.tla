------------------------------ MODULE NumFmt2 ------------------------------
(***************************************************************************)
(* X04 - rendering of numbers, dates and text under number-format codes    *)
(* beyond the fixed-decimal patterns of C19 (NumFmt.tla, extended here).   *)
(*                                                                         *)
(* PROPERTIES (what a user of helper::number_format::to_formatted_string,  *)
(* Cell::get_formatted_value and Worksheet::get_formatted_value relies on; *)
(* ECMA-376 Part 1, 18.8.30/18.8.31 and Excel's documented behaviour).     *)
(* For every format code F built from the constructs below and every       *)
(* finite number v with at most 15 significant digits (or text t):         *)
(*                                                                         *)
(* P1 SECTIONS.  Exactly one section of F applies.  Without conditions:    *)
(*    one numeric section - every number, a negative one gets a leading    *)
(*    "-"; two - the first for v >= 0, the second for v < 0; three - v > 0,*)
(*    v < 0, v = 0.  A section chosen for a negative number by position    *)
(*    renders |v|: the sign is whatever that section spells out, e.g.      *)
(*    "0.00;(0.00)" shows -1234.5 as (1234.50).  With conditions           *)
(*    [op c]: "[c1]A;B" uses A if c1 holds, else B; "[c1]A;[c2]B;C" uses A *)
(*    if c1, else B if c2, else C.  A last section containing @ is the     *)
(*    text section: it never applies to numbers, text is rendered by it    *)
(*    (@ = the text), text under a format without text section is shown    *)
(*    unchanged.  Colour brackets never show.                              *)
(* P2 LITERALS.  Quoted text, backslash-escaped characters, the characters *)
(*    $ - + ( ) : ! space and the currency string of [$cur-lcid] appear in *)
(*    the output, verbatim, in format order, around the digits; _x         *)
(*    (padding) and *x (fill) show as nothing or as one blank.             *)
(* P3 DIGITS.  The digits shown are those of |v| (x100 per %, /1000 per    *)
(*    scaling comma after the last digit placeholder), rounded half away   *)
(*    from zero to as many decimals as there are placeholders after the    *)
(*    point.  Integer placeholders are a minimum width: a missing digit is *)
(*    shown as 0 under "0", as a blank under "?", not at all under "#";    *)
(*    extra digits are never cut.  Fraction placeholders "#"/"?" drop /    *)
(*    blank out trailing zeros; the decimal point itself always shows      *)
(*    (#.## of 1.5 is 1.5, of 1 is "1.").  A comma between digit           *)
(*    placeholders groups the shown integer digits in threes.              *)
(* P4 SCIENTIFIC.  m.mmE+ee: v = mantissa x 10^e, the exponent a multiple  *)
(*    of the number of integer placeholders (1, or 3 for ##0.0E+0), the    *)
(*    mantissa rounded half away to the placeholders after the point and   *)
(*    renormalised when rounding carries (999.96 -> 1.0E+3); E+ always     *)
(*    shows the exponent's sign, E- only a minus; the exponent has at      *)
(*    least as many digits as placeholders.  0 is 0.00E+00.                *)
(* P5 FRACTIONS.  "# ?/?", "# ??/??": whole part and a fraction n/d        *)
(*    closest to the remainder among denominators of at most that many     *)
(*    digits, in lowest terms; a fraction 0 shows the whole part only, a   *)
(*    fraction 1 carries into it; "# ?/8": numerator = remainder x 8       *)
(*    rounded half away, not reduced; without integer placeholder the      *)
(*    fraction is improper.  (Alignment blanks are not demanded: outputs   *)
(*    of fraction formats are compared modulo runs of blanks.)             *)
(* P6 DATES.  On a serial >= 61 (1900-03-01, no phantom day involved; the  *)
(*    serial -> calendar step itself is C18's): yyyy yy m mm mmm mmmm      *)
(*    mmmmm d dd ddd dddd h hh s ss with English names; m/mm directly      *)
(*    after an hour token or directly before a seconds token are minutes;  *)
(*    AM/PM or A/P switch h to the 12-hour clock (12 at midnight/noon);    *)
(*    [h] [m] [s] show the whole elapsed hours/minutes/seconds.  Time is   *)
(*    rounded to the nearest second.  The letter case of the AM/PM marker  *)
(*    is not demanded.                                                     *)
(* Outputs are compared modulo leading/trailing blanks; all three entry    *)
(* points must agree.  Not demanded (Excel not pinned down by the          *)
(* standard): the sign of a negative number under a *conditional* section  *)
(* (with or without "-" accepted); "?" together with grouping; literals    *)
(* inside the digit run; General inside sections; fractional seconds;      *)
(* era/locale calendars.                                                   *)
(*                                                                         *)
(* A format is a sequence of 1..4 sections; a section is a record          *)
(*  [color, cop, cval, k, pre, post, ip, grp, sc, fp, esign, ep, np, dp,   *)
(*   dfix, up]: kind k in num|sci|frac|date|text|lit, literal items before *)
(*  (pre) and after (post) the digit run, integer / fraction placeholders  *)
(*  ip / fp, grouping, scaling commas sc, exponent sign and placeholders,  *)
(*  numerator / denominator placeholders or fixed denominator; date, text  *)
(*  and literal-only sections keep all their items in pre.  SecChars is    *)
(*  the format code of a section: the conformance check compares it with   *)
(*  the code that was fed to the library.                                  *)
(*                                                                         *)
(* Render(F, v, D) is the output as a sequence of cells; a cell is a       *)
(* tuple of alternative character sequences (one alternative unless the    *)
(* property leaves a choice: padding, AM/am, free sign).  D is a set of    *)
(* deviation ids: {} is the intended rendering, the conformance check      *)
(* (Trace_NumFmt2) switches on the recorded findings of the pinned code.   *)
(*                                                                         *)
(* State machine: the decimal odometer of NumFmt (n, ds) x a sign x an     *)
(* index into a catalogue of formats; every step moves to another (value,  *)
(* format) pair and is named after the rendering rule that pair exercises  *)
(* (vacuity guard: every rule must be taken).  Invariants tie the digit-   *)
(* level operators to integer arithmetic on n and to each other.           *)
(***************************************************************************)
EXTENDS NumFmt, FiniteSets

CONSTANTS Catalogue,   \* sequence of formats the machine walks through
          Starts,      \* the odometer walks the blocks of Block numbers that begin at these multiples of Block
          MCDev        \* deviation ids switched on in the model (intended design: {})

---------------------------------------------------------------------------
(* sequences *)
RECURSIVE FlatSeq(_)
FlatSeq(ss) == IF ss = <<>> THEN <<>> ELSE Head(ss) \o FlatSeq(Tail(ss))
Rev(s) == [i \in 1..Len(s) |-> s[Len(s) + 1 - i]]
RECURSIVE TrimL(_)
TrimL(cs) == IF cs # <<>> /\ Head(cs) = " " THEN TrimL(Tail(cs)) ELSE cs
Trim(cs) == Rev(TrimL(Rev(TrimL(cs))))
RECURSIVE Squeeze(_)
Squeeze(cs) == IF Len(cs) < 2 THEN cs
               ELSE IF cs[1] = " " /\ cs[2] = " " THEN Squeeze(Tail(cs))
               ELSE <<Head(cs)>> \o Squeeze(Tail(cs))
Max2(a, b) == IF a >= b THEN a ELSE b
MaxOf(S) == CHOOSE x \in S : \A y \in S : x >= y
RECURSIVE DigitsOf(_)
DigitsOf(k) == IF k < 10 THEN <<k>> ELSE Append(DigitsOf(k \div 10), k % 10)
IsDigitCh(c) == \E d \in 1..10 : DC[d] = c
Count(s, P(_)) == Cardinality({i \in DOMAIN s : P(s[i])})
(* number of leading elements of s that are in S *)
RECURSIVE LeadCount(_, _)
LeadCount(s, S) == IF s # <<>> /\ Head(s) \in S THEN 1 + LeadCount(Tail(s), S) ELSE 0

(* cells *)
Cs(chars) == [i \in 1..Len(chars) |-> <<(<<chars[i]>>)>>]
OptBlank  == << <<>>, <<" ">> >>
OptMinus  == << <<>>, <<"-">> >>
Canon(cells) == FlatSeq([i \in 1..Len(cells) |-> cells[i][1]])
RECURSIVE Expand(_)
Expand(cells) == IF cells = <<>> THEN {<<>>}
                 ELSE LET rest == Expand(Tail(cells))
                      IN  {Head(cells)[j] \o r : j \in DOMAIN Head(cells), r \in rest}

---------------------------------------------------------------------------
(* decimal numbers as digit records (NumFmt): shifting the point, comparing, multiplying *)
ZeroRec == [neg |-> FALSE, int |-> <<0>>, frac |-> <<>>]
Abs(x) == [x EXCEPT !.neg = FALSE]
ShiftL(x, e) ==
  LET f == IF Len(x.frac) < e THEN x.frac \o Zeros(e - Len(x.frac)) ELSE x.frac
  IN  [neg |-> x.neg, int |-> NormInt(x.int \o SubSeq(f, 1, e)), frac |-> StripRight(SubSeq(f, e + 1, Len(f)))]
ShiftR(x, e) ==
  LET i == Zeros(e) \o x.int
  IN  [neg |-> x.neg, int |-> NormInt(SubSeq(i, 1, Len(i) - e)),
       frac |-> StripRight(SubSeq(i, Len(i) - e + 1, Len(i)) \o x.frac)]

RECURSIVE LexCmp(_, _)          \* equal lengths: -1, 0, 1
LexCmp(a, b) == IF a = <<>> THEN 0
                ELSE IF Head(a) < Head(b) THEN -1 ELSE IF Head(a) > Head(b) THEN 1
                ELSE LexCmp(Tail(a), Tail(b))
CmpMag(a, b) ==
  IF Len(a.int) # Len(b.int) THEN (IF Len(a.int) < Len(b.int) THEN -1 ELSE 1)
  ELSE LET c == LexCmp(a.int, b.int)
           w == Max2(Len(a.frac), Len(b.frac))
       IN  IF c # 0 THEN c
           ELSE LexCmp(a.frac \o Zeros(w - Len(a.frac)), b.frac \o Zeros(w - Len(b.frac)))
IsNeg(x) == x.neg /\ ~IsZero(x)
Cmp(x, y) == IF IsNeg(x) /\ ~IsNeg(y) THEN -1
             ELSE IF ~IsNeg(x) /\ IsNeg(y) THEN 1
             ELSE IF IsNeg(x) THEN CmpMag(y, x) ELSE CmpMag(x, y)
CondHolds(op, v, c) ==
  LET r == Cmp(v, c)
  IN  CASE op = <<">">> -> r = 1       [] op = <<">", "=">> -> r >= 0
        [] op = <<"<">> -> r = -1      [] op = <<"<", "=">> -> r <= 0
        [] op = <<"=">> -> r = 0       [] op = <<"<", ">">> -> r # 0

(* digits (most significant first) times a small integer, plus carry *)
RECURSIVE MulAcc(_, _, _)
MulAcc(d, m, carry) ==
  IF d = <<>> THEN (IF carry = 0 THEN <<>> ELSE DigitsOf(carry))
  ELSE LET t == d[Len(d)] * m + carry
       IN  Append(MulAcc(SubSeq(d, 1, Len(d) - 1), m, t \div 10), t % 10)
(* x * m for a non-negative record x and 1 <= m <= 10^5 *)
MulRec(x, m) ==
  LET p  == MulAcc(x.int \o x.frac, m, 0)
      pp == IF Len(p) <= Len(x.frac) THEN Zeros(Len(x.frac) + 1 - Len(p)) \o p ELSE p
  IN  [neg |-> x.neg, int |-> NormInt(SubSeq(pp, 1, Len(pp) - Len(x.frac))),
       frac |-> StripRight(SubSeq(pp, Len(pp) - Len(x.frac) + 1, Len(pp)))]
NumChars(x) == SignChars(x.neg) \o DigitChars(x.int) \o (IF x.frac # <<>> THEN <<".">> \o DigitChars(x.frac) ELSE <<>>)
IsInteger(x) == x.frac = <<>>

RECURSIVE SetToSeq(_)
SetToSeq(S) == IF S = {} THEN <<>> ELSE LET x == CHOOSE y \in S : TRUE IN <<x>> \o SetToSeq(S \ {x})
RECURSIVE Gcd(_, _)
Gcd(a, b) == IF b = 0 THEN a ELSE Gcd(b, a % b)

---------------------------------------------------------------------------
(* format codes: items, sections, the code text *)
Sec0 == [color |-> <<>>, cop |-> <<>>, cval |-> ZeroRec, k |-> "num", pre |-> <<>>, post |-> <<>>,
         ip |-> <<>>, grp |-> FALSE, sc |-> 0, fp |-> <<>>, esign |-> "+", ep |-> <<>>,
         np |-> <<>>, dp |-> <<>>, dfix |-> <<>>, up |-> FALSE]
SecFields == DOMAIN Sec0
Item(t, c) == [t |-> t, c |-> c, l |-> <<>>]
LitKinds  == {"q", "e", "b", "pad", "fill", "cur"}
Upper(c) == CASE c = "y" -> "Y" [] c = "m" -> "M" [] c = "d" -> "D" [] c = "h" -> "H" [] c = "s" -> "S" [] OTHER -> c
ItemChars(it, up) ==
  CASE it.t = "q"    -> <<"\"">> \o it.c \o <<"\"">>
    [] it.t = "e"    -> <<"\\">> \o it.c
    [] it.t = "b"    -> it.c
    [] it.t = "pad"  -> <<"_">> \o it.c
    [] it.t = "fill" -> <<"*">> \o it.c
    [] it.t = "cur"  -> <<"[", "$">> \o it.c \o <<"-">> \o it.l \o <<"]">>
    [] it.t = "pct"  -> <<"%">>
    [] it.t = "at"   -> <<"@">>
    [] it.t = "d"    -> IF up THEN [i \in 1..Len(it.c) |-> Upper(it.c[i])] ELSE it.c
    [] it.t = "el"   -> <<"[">> \o (IF up THEN [i \in 1..Len(it.c) |-> Upper(it.c[i])] ELSE it.c) \o <<"]">>
ItemsChars(items, up) == FlatSeq([i \in 1..Len(items) |-> ItemChars(items[i], up)])
(* a comma before every third integer placeholder from the right *)
IntPhChars(ip, grp) ==
  IF ~grp THEN ip
  ELSE FlatSeq([i \in 1..Len(ip) |-> <<ip[i]>> \o (IF i < Len(ip) /\ (Len(ip) - i) % 3 = 0 THEN <<",">> ELSE <<>>)])
Commas(k) == [i \in 1..k |-> ","]
DotFrac(fp) == IF fp = <<>> THEN <<>> ELSE <<".">> \o fp
BodyChars(s) ==
  CASE s.k = "num"  -> ItemsChars(s.pre, FALSE) \o IntPhChars(s.ip, s.grp) \o DotFrac(s.fp) \o Commas(s.sc)
                       \o ItemsChars(s.post, FALSE)
    [] s.k = "sci"  -> ItemsChars(s.pre, FALSE) \o s.ip \o DotFrac(s.fp) \o <<"E", s.esign>> \o s.ep
                       \o ItemsChars(s.post, FALSE)
    [] s.k = "frac" -> ItemsChars(s.pre, FALSE) \o s.ip \o (IF s.ip # <<>> THEN <<" ">> ELSE <<>>) \o s.np \o <<"/">>
                       \o (IF s.dfix # <<>> THEN DigitChars(s.dfix) ELSE s.dp) \o ItemsChars(s.post, FALSE)
    [] OTHER        -> ItemsChars(s.pre, s.up)
SecChars(s) ==
  (IF s.color = <<>> THEN <<>> ELSE <<"[">> \o s.color \o <<"]">>)
  \o (IF s.cop = <<>> THEN <<>> ELSE <<"[">> \o s.cop \o NumChars(s.cval) \o <<"]">>)
  \o BodyChars(s)
RECURSIVE JoinSecs(_)
JoinSecs(FF) == IF Len(FF) = 1 THEN SecChars(FF[1]) ELSE SecChars(FF[1]) \o <<";">> \o JoinSecs(Tail(FF))
FormatChars(FF) == JoinSecs(FF)
FormatText(FF)  == Concat(FormatChars(FF))

Items(s) == s.pre \o s.post
HasPct(s)  == \E i \in DOMAIN Items(s) : Items(s)[i].t = "pct"
PctLast(s) == s.post # <<>> /\ s.post[Len(s.post)].t = "pct"
IsPh(c) == c \in {"0", "#", "?"}

(* well-formed sections / formats: the constructs the properties speak about *)
ItemOK(it) ==
  /\ it.t \in LitKinds \cup {"pct", "at", "d", "el"}
  /\ it.t \in {"e", "b", "pad", "fill"} => Len(it.c) = 1
  /\ it.t = "q" => \A i \in DOMAIN it.c : it.c[i] # "\""
  /\ it.t \in LitKinds => \A i \in DOMAIN it.c : ~IsDigitCh(it.c[i])        \* literals carry no digits
DateNames == {"yyyy", "yy", "m", "mm", "mmm", "mmmm", "mmmmm", "d", "dd", "ddd", "dddd", "h", "hh", "s", "ss",
              "AM/PM", "A/P"}
ElNames == {"h", "m", "mm", "s", "ss"}
SecOK(s) ==
  /\ DOMAIN s = SecFields
  /\ s.k \in {"num", "sci", "frac", "date", "text", "lit"}
  /\ \A i \in DOMAIN Items(s) : ItemOK(Items(s)[i])
  /\ \A i \in DOMAIN s.ip : IsPh(s.ip[i])
  /\ \A i \in DOMAIN s.fp : IsPh(s.fp[i])
  /\ s.k \in {"num", "sci", "frac"} =>
       /\ \A i \in DOMAIN Items(s) : Items(s)[i].t \in LitKinds \cup {"pct"}
       /\ Count(Items(s), LAMBDA it : it.t = "pct") <= (IF s.k = "num" THEN 1 ELSE 0)
  /\ s.k = "num" => /\ s.ip # <<>>
                    /\ s.grp => Len(s.ip) >= 4 /\ \A i \in DOMAIN s.ip : s.ip[i] # "?"
                    /\ s.sc \in 0..2
                    /\ HasPct(s) => s.sc = 0 /\ ~s.grp
                    /\ \A i \in DOMAIN s.fp : s.fp[i] = "0" \/ (\A j \in i..Len(s.fp) : s.fp[j] = s.fp[i])
  /\ s.k = "sci" => /\ s.ip \in {<<"0">>, <<"#", "#", "0">>} /\ \A i \in DOMAIN s.fp : s.fp[i] = "0"
                    /\ s.esign \in {"+", "-"} /\ s.ep # <<>> /\ \A i \in DOMAIN s.ep : s.ep[i] = "0"
  /\ s.k = "frac" => /\ s.ip \in {<<>>, <<"#">>, <<"0">>}
                     /\ s.np # <<>> /\ \A i \in DOMAIN s.np : s.np[i] = "?"
                     /\ IF s.dfix # <<>> THEN s.dp = <<>> /\ s.dfix = NormInt(s.dfix) /\ s.dfix # <<0>> /\ Len(s.dfix) <= 3
                        ELSE Len(s.dp) \in 1..2 /\ \A i \in DOMAIN s.dp : s.dp[i] = "?"
  /\ s.k \in {"date", "text", "lit"} => s.post = <<>> /\ s.pre # <<>>
  /\ s.k = "date" => /\ \A i \in DOMAIN s.pre : s.pre[i].t \in {"q", "e", "b", "d", "el"}
                     /\ \A i \in DOMAIN s.pre : /\ s.pre[i].t = "d" => Concat(s.pre[i].c) \in DateNames
                                                /\ s.pre[i].t = "el" => Concat(s.pre[i].c) \in ElNames
                     /\ \E i \in DOMAIN s.pre : s.pre[i].t \in {"d", "el"}
  /\ s.k = "text" => /\ \A i \in DOMAIN s.pre : s.pre[i].t \in {"q", "e", "b", "pad", "at"}
                     /\ \E i \in DOMAIN s.pre : s.pre[i].t = "at"
  /\ s.k = "lit"  => \A i \in DOMAIN s.pre : s.pre[i].t \in LitKinds
  /\ IsNumber(s.cval)
  /\ s.cop \in {<<>>, <<">">>, <<">", "=">>, <<"<">>, <<"<", "=">>, <<"=">>, <<"<", ">">>}

IsTextSec(s) == s.k = "text"
NSec(FF) == IF IsTextSec(FF[Len(FF)]) THEN Len(FF) - 1 ELSE Len(FF)        \* numeric sections
HasCond(FF) == FF[1].cop # <<>>
FormatOK(FF) ==
  /\ Len(FF) \in 1..4
  /\ \A i \in DOMAIN FF : SecOK(FF[i])
  /\ \A i \in 1..(Len(FF) - 1) : ~IsTextSec(FF[i])
  /\ NSec(FF) <= 3
  /\ IF HasCond(FF) THEN /\ NSec(FF) \in {2, 3}
                        /\ (NSec(FF) = 3) <=> (FF[2].cop # <<>>)
                        /\ \A i \in 3..Len(FF) : FF[i].cop = <<>>
     ELSE \A i \in DOMAIN FF : FF[i].cop = <<>>

---------------------------------------------------------------------------
(* P1: which section applies to a number *)
Applies(FF, i, v) ==            \* declarative form
  IF HasCond(FF)
  THEN LET c1 == CondHolds(FF[1].cop, v, FF[1].cval)
           c2 == NSec(FF) = 3 /\ CondHolds(FF[2].cop, v, FF[2].cval)
       IN  CASE i = 1 -> c1
             [] i = 2 -> ~c1 /\ (NSec(FF) = 2 \/ c2)
             [] i = 3 -> NSec(FF) = 3 /\ ~c1 /\ ~c2
             [] OTHER -> FALSE
  ELSE CASE NSec(FF) = 1 -> i = 1
         [] NSec(FF) = 2 -> (i = 1 /\ ~IsNeg(v)) \/ (i = 2 /\ IsNeg(v))
         [] NSec(FF) = 3 -> (i = 1 /\ ~IsNeg(v) /\ ~IsZero(v)) \/ (i = 2 /\ IsNeg(v)) \/ (i = 3 /\ IsZero(v))
         [] OTHER -> FALSE
SectionOf(FF, v) ==             \* operational form (a cascade)
  IF HasCond(FF)
  THEN IF CondHolds(FF[1].cop, v, FF[1].cval) THEN 1
       ELSE IF NSec(FF) = 2 THEN 2
       ELSE IF CondHolds(FF[2].cop, v, FF[2].cval) THEN 2 ELSE 3
  ELSE IF NSec(FF) = 1 THEN 1
       ELSE IF IsNeg(v) THEN 2
       ELSE IF NSec(FF) = 3 /\ IsZero(v) THEN 3 ELSE 1
(* the sign in front of everything: automatic minus, nothing, or not demanded *)
SignCells(FF, v) ==
  IF ~IsNeg(v) THEN <<>>
  ELSE IF HasCond(FF) THEN <<OptMinus>>
  ELSE IF NSec(FF) = 1 THEN Cs(<<"-">>) ELSE <<>>

---------------------------------------------------------------------------
(* P2: literal items *)
ItemCells(it) ==
  CASE it.t \in {"q", "e", "b", "cur"} -> Cs(it.c)
    [] it.t \in {"pad", "fill"}        -> <<OptBlank>>
    [] it.t = "pct"                    -> Cs(<<"%">>)
ItemsCells(items) == FlatSeq([i \in 1..Len(items) |-> ItemCells(items[i])])

(* P3: the digit run *)
IntChars(ip, grp, d) ==          \* d: integer digits, <<>> for zero
  LET np == Len(ip)
      L == Max2(np, Len(d))
      ch(i) == LET p == L - i + 1
               IN  IF p <= Len(d) THEN <<DC[d[Len(d) - p + 1] + 1]>>
                   ELSE LET ph == ip[np - p + 1]
                        IN  IF ph = "0" THEN <<"0">> ELSE IF ph = "?" THEN <<" ">> ELSE <<>>
      sep(i) == LET p == L - i + 1
                IN  IF grp /\ p > 1 /\ (p - 1) % 3 = 0 /\ ch(i) # <<>> /\ ch(i) # <<" ">> THEN <<",">> ELSE <<>>
  IN  FlatSeq([i \in 1..L |-> ch(i) \o sep(i)])
FracChars(fp, f) ==              \* f: exactly Len(fp) digits
  LET shown == {0} \cup {i \in 1..Len(fp) : f[i] # 0 \/ fp[i] = "0"}
      last  == MaxOf(shown)
  IN  FlatSeq([i \in 1..Len(fp) |-> IF i <= last THEN <<DC[f[i] + 1]>>
                                     ELSE IF fp[i] = "?" THEN <<" ">> ELSE <<>>])
IntDigits(r) == IF r.int = <<0>> THEN <<>> ELSE r.int

(* deviation ids (Trace_NumFmt2 / ext_findings.json) *)
KLit == "X04-KF1"   KCur == "X04-KF2"    KIntPh == "X04-KF3"  KFracHash == "X04-KF4"  KFracQ == "X04-KF5"
KPct == "X04-KF6"   KQuoted == "X04-KF7" KSci == "X04-KF8"    KFracNear == "X04-KF9"  KFracFix == "X04-KF10"
KText == "X04-KF11" KNumText == "X04-KF12" KTxtSec == "X04-KF13" KNoPh == "X04-KF14"
KMin == "X04-KF15"  KElH == "X04-KF16"   KElMS == "X04-KF17"  KM5 == "X04-KF18"  KAP == "X04-KF19"
KUp == "X04-KF20"   KS1 == "X04-KF21"

(* the scaled magnitude of a numeric section *)
Scaled(s, m, D) ==
  LET p == IF HasPct(s) /\ ~(KPct \in D /\ ~PctLast(s)) THEN 2 ELSE 0
  IN  ShiftR(ShiftL(m, p), 3 * s.sc)
EffFp(s, D) ==
  LET k  == IF KFracQ \in D THEN LeadCount(s.fp, {"0", "#"}) ELSE Len(s.fp)
      f  == SubSeq(s.fp, 1, k)
  IN  IF KFracHash \in D THEN [i \in 1..k |-> IF f[i] = "#" THEN "0" ELSE f[i]] ELSE f

(* what the pinned code puts in front of the number when the flattened section has a "$": everything
   from the first "$" up to the first digit character (placeholders count as the digit 0) *)
FlatItem(it) == CASE it.t = "pad" -> <<" ">>
                  [] it.t = "cur" -> <<"[", "$">> \o it.c \o <<"-">> \o it.l \o <<"]">>
                  [] it.t = "pct" -> <<"%">>
                  [] OTHER -> it.c
FlatItems(items) == FlatSeq([i \in 1..Len(items) |-> FlatItem(items[i])])
FlatNum(s) == Trim(FlatItems(s.pre) \o [i \in 1..Len(s.ip) |-> IF s.ip[i] = "?" THEN "?" ELSE "0"]
                   \o (IF s.fp = <<>> THEN <<>> ELSE <<".">> \o [i \in 1..Len(s.fp) |-> IF s.fp[i] = "?" THEN "?" ELSE "0"])
                   \o FlatItems(s.post))
HasDollar(s) == \E i \in DOMAIN FlatNum(s) : FlatNum(s)[i] = "$"
RECURSIVE TakeNonDigits(_)
TakeNonDigits(cs) == IF cs = <<>> \/ IsDigitCh(Head(cs)) THEN <<>> ELSE <<Head(cs)>> \o TakeNonDigits(Tail(cs))
CurPrefix(s) ==
  LET f == FlatNum(s)
      i == CHOOSE j \in DOMAIN f : f[j] = "$" /\ \A h \in 1..(j - 1) : f[h] # "$"
  IN  TakeNonDigits(SubSeq(f, i, Len(f)))

NumBody(s, m, D) ==             \* the digit run of a numeric section, as characters
  LET fp   == EffFp(s, D)
      r    == RoundHalfAway(Scaled(s, m, D), Len(fp))
      intc == IF KIntPh \in D THEN (IF s.grp THEN Group3Chars(r.int) ELSE DigitChars(r.int))
              ELSE IntChars(s.ip, s.grp, IntDigits(r))
      frac == IF Len(fp) = 0 THEN (IF s.fp # <<>> /\ KFracQ \notin D THEN <<".">> ELSE <<>>)
              ELSE <<".">> \o FracChars(fp, r.frac)
  IN  intc \o frac
RenderNum(s, m, sign, D) ==
  LET body == Cs(NumBody(s, m, D))
  IN  IF KLit \in D
      THEN (IF KCur \in D /\ HasDollar(s) /\ ~PctLast(s) THEN Cs(CurPrefix(s)) ELSE <<>>)
           \o sign \o body \o (IF PctLast(s) THEN Cs(<<"%">>) ELSE <<>>)
      ELSE sign \o ItemsCells(s.pre) \o body \o ItemsCells(s.post)

---------------------------------------------------------------------------
(* P4: scientific notation *)
SigDigitsOf(m) == StripLeft(m.int \o m.frac)
FloorDiv(a, b) == IF a >= 0 THEN a \div b ELSE -((-a + b - 1) \div b)
(* position of the first significant digit: 10^E0 <= m < 10^(E0+1) *)
E0(m) == IF m.int # <<0>> THEN Len(m.int) - 1 ELSE -(Len(m.frac) - Len(StripLeft(m.frac)) + 1)
ShiftBy(m, e) == IF e >= 0 THEN ShiftL(m, e) ELSE ShiftR(m, -e)       \* m * 10^e
SciParts(s, m) ==                \* [mant |-> rounded mantissa record, e |-> exponent]
  IF IsZero(m) THEN [mant |-> RoundHalfAway(m, Len(s.fp)), e |-> 0]
  ELSE LET ni == Len(s.ip)
           e1 == ni * FloorDiv(E0(m), ni)
           r1 == RoundHalfAway(ShiftBy(m, -e1), Len(s.fp))
       IN  IF Len(r1.int) <= ni THEN [mant |-> r1, e |-> e1]
           ELSE [mant |-> RoundHalfAway(ShiftBy(m, -(e1 + ni)), Len(s.fp)), e |-> e1 + ni]
ExpChars(s, e) ==
  LET a  == IF e < 0 THEN -e ELSE e
      d  == DigitsOf(a)
      dd == IF Len(d) < Len(s.ep) THEN Zeros(Len(s.ep) - Len(d)) \o d ELSE d
  IN  <<"E">> \o (IF e < 0 THEN <<"-">> ELSE IF s.esign = "+" THEN <<"+">> ELSE <<>>) \o DigitChars(dd)
AsNum(s) == [s EXCEPT !.k = "num", !.grp = FALSE, !.sc = 0]
RenderSci(s, m, sign, D) ==
  IF KSci \in D THEN RenderNum(AsNum(s), m, sign, D)
  ELSE LET p == SciParts(s, m)
           body == IntChars(s.ip, FALSE, IntDigits(p.mant))
                   \o (IF s.fp = <<>> THEN <<>> ELSE <<".">> \o DigitChars(p.mant.frac))
                   \o ExpChars(s, p.e)
       IN  IF KLit \in D THEN sign \o Cs(body) ELSE sign \o ItemsCells(s.pre) \o Cs(body) \o ItemsCells(s.post)

---------------------------------------------------------------------------
(* P5: fractions.  The remainder is fv / 10^fl; candidates n/d with d <= dmax *)
Dmax(s) == Pow10(Len(s.dp)) - 1
RoundDiv(a, b) == (2 * a + b) \div (2 * b)              \* a/b rounded half away (a, b >= 0)
AbsInt(a) == IF a < 0 THEN -a ELSE a
(* first pass over the denominators: <<bd, be>> with the smallest error be / (bd * p); second pass: all that tie *)
RECURSIVE MinErr(_, _, _, _, _, _)
MinErr(fv, p, d, dmax, bd, be) ==
  IF d > dmax THEN <<bd, be>>
  ELSE LET e == AbsInt(fv * d - RoundDiv(fv * d, p) * p)
       IN  IF e * bd < be * d THEN MinErr(fv, p, d + 1, dmax, d, e) ELSE MinErr(fv, p, d + 1, dmax, bd, be)
BestFracs(fv, fl, dmax) ==
  LET p  == Pow10(fl)
      m  == MinErr(fv, p, 2, dmax, 1, AbsInt(fv - RoundDiv(fv, p) * p))
      dset == {d \in 1..dmax : AbsInt(fv * d - RoundDiv(fv * d, p) * p) * m[1] = m[2] * d}
  IN  {LET nu == RoundDiv(fv * d, p) IN <<nu \div Gcd(nu, d), d \div Gcd(nu, d)>> : d \in dset}
FracText(s, whole, nu, d) ==      \* one rendering, single blanks
  IF s.ip = <<>> THEN DigitChars(DigitsOf(whole * d + nu)) \o <<"/">> \o DigitChars(DigitsOf(d))
  ELSE IF nu = 0 THEN DigitChars(DigitsOf(whole))
  ELSE IF nu = d THEN DigitChars(DigitsOf(whole + 1))
  ELSE (IF whole = 0 /\ s.ip = <<"#">> THEN <<>> ELSE DigitChars(DigitsOf(whole)) \o <<" ">>)
       \o DigitChars(DigitsOf(nu)) \o <<"/">> \o DigitChars(DigitsOf(d))
(* what the pinned code computes for ?/? formats: the decimal fraction itself, reduced; the leading
   zeros of the fraction digits are lost before the denominator 10^len is chosen *)
ImplFracChars(s, v) ==
  LET m     == Abs(v)
      whole == Val(m.int)
      dpv   == Val(m.frac)
      len   == Len(DigitsOf(dpv))
      g     == IF dpv = 0 THEN Pow10(len) ELSE Gcd(dpv, Pow10(len))
      nu     == dpv \div g
      d     == Pow10(len) \div g
      nd    == DigitChars(DigitsOf(nu)) \o <<"/">> \o DigitChars(DigitsOf(d))
      hasZero == \E i \in DOMAIN s.ip : s.ip[i] = "0"
  IN  IF hasZero \/ (s.ip # <<>> /\ whole # 0) THEN DigitChars(DigitsOf(whole)) \o <<" ">> \o nd
      ELSE IF s.ip # <<>> THEN nd
      ELSE DigitChars(DigitsOf(whole * d + nu)) \o <<"/">> \o DigitChars(DigitsOf(d))
FracInContract(s, m) == Len(m.int) <= 4 /\ Len(m.frac) <= 5
RenderFrac(s, v, m, sign, D) ==      \* v: the value the pinned code passes on (signed for a single section)
  IF s.dfix # <<>> /\ KFracFix \in D THEN RenderNum([AsNum(s) EXCEPT !.fp = <<>>], m, sign, D)
  ELSE IF s.dfix = <<>> /\ KFracNear \in D
  THEN (IF IsInteger(v) /\ ~IsNeg(v) THEN sign \o Cs(DigitChars(v.int))          \* (left as it is)
        ELSE sign \o Cs(ImplFracChars(s, v)))
  ELSE LET whole == Val(m.int)
           fv    == Val(m.frac)
           fl    == Len(m.frac)
           alts  == IF s.dfix # <<>> THEN {<<RoundDiv(fv * Val(s.dfix), Pow10(fl)), Val(s.dfix)>>}
                    ELSE BestFracs(fv, fl, Dmax(s))
           texts == {FracText(s, whole, c[1], c[2]) : c \in alts}
           one   == << SetToSeq(texts) >>            \* one cell; several alternatives only on ties
       IN  IF KLit \in D THEN sign \o one ELSE sign \o ItemsCells(s.pre) \o one \o ItemsCells(s.post)
---------------------------------------------------------------------------
(* P6: dates and times *)
IsLeap(y)      == (y % 4 = 0 /\ y % 100 # 0) \/ y % 400 = 0
MonthLen(y, mo) == IF mo = 2 THEN (IF IsLeap(y) THEN 29 ELSE 28) ELSE IF mo \in {4, 6, 9, 11} THEN 30 ELSE 31
NextDate(dt)   == IF dt[3] < MonthLen(dt[1], dt[2]) THEN <<dt[1], dt[2], dt[3] + 1>>
                  ELSE IF dt[2] < 12 THEN <<dt[1], dt[2] + 1, 1>> ELSE <<dt[1] + 1, 1, 1>>
(* civil date of a day count z from 1970-01-01 (closed form) *)
CivilFromDays(z) ==
  LET zz  == z + 719468
      era == zz \div 146097
      doe == zz - era * 146097
      yoe == (doe - doe \div 1460 + doe \div 36524 - doe \div 146096) \div 365
      doy == doe - (365 * yoe + yoe \div 4 - yoe \div 100)
      mp  == (5 * doy + 2) \div 153
      d   == doy - (153 * mp + 2) \div 5 + 1
      mo  == IF mp < 10 THEN mp + 3 ELSE mp - 9
      y   == yoe + era * 400 + (IF mo <= 2 THEN 1 ELSE 0)
  IN  <<y, mo, d>>
DateOfSerial(sn) == CivilFromDays(sn - 25569)            \* n >= 61
MinSerial == 61
MaxSerial == 2958465
MonthChars == << <<"J","a","n","u","a","r","y">>, <<"F","e","b","r","u","a","r","y">>, <<"M","a","r","c","h">>,
                 <<"A","p","r","i","l">>, <<"M","a","y">>, <<"J","u","n","e">>, <<"J","u","l","y">>,
                 <<"A","u","g","u","s","t">>, <<"S","e","p","t","e","m","b","e","r">>, <<"O","c","t","o","b","e","r">>,
                 <<"N","o","v","e","m","b","e","r">>, <<"D","e","c","e","m","b","e","r">> >>
(* serial % 7: 0 Saturday .. 6 Friday *)
DayChars == << <<"S","a","t","u","r","d","a","y">>, <<"S","u","n","d","a","y">>, <<"M","o","n","d","a","y">>,
               <<"T","u","e","s","d","a","y">>, <<"W","e","d","n","e","s","d","a","y">>,
               <<"T","h","u","r","s","d","a","y">>, <<"F","r","i","d","a","y">> >>
(* seconds of the day, rounded to the nearest second (may be 86400) *)
SecsOfFrac(f) ==
  IF f = <<>> THEN 0
  ELSE LET p  == MulAcc(f, 86400, 0)
           pp == IF Len(p) <= Len(f) THEN Zeros(Len(f) + 1 - Len(p)) \o p ELSE p
           ip == SubSeq(pp, 1, Len(pp) - Len(f))
           up == pp[Len(pp) - Len(f) + 1] >= 5
       IN  Val(ip) + (IF up THEN 1 ELSE 0)
(* [day |-> serial day, sod |-> second of that day] *)
Clock(m) == LET s == SecsOfFrac(m.frac)
                d == Val(m.int)
            IN  IF s = 86400 THEN [day |-> d + 1, sod |-> 0] ELSE [day |-> d, sod |-> s]
Pad2Chars(k) == IF k < 10 THEN <<"0">> \o DigitChars(<<k>>) ELSE DigitChars(DigitsOf(k))
NumCh(k) == DigitChars(DigitsOf(k))
TokName(it) == Concat(it.c)
IsTok(it)  == it.t \in {"d", "el"}
IsHourTok(it) == IsTok(it) /\ TokName(it) \in {"h", "hh"}
IsSecTok(it)  == IsTok(it) /\ TokName(it) \in {"s", "ss"}
PrevTok(items, i) == LET S == {j \in 1..(i - 1) : IsTok(items[j])} IN IF S = {} THEN 0 ELSE MaxOf(S)
NextTok(items, i) == LET S == {j \in (i + 1)..Len(items) : IsTok(items[j])} IN IF S = {} THEN 0 ELSE CHOOSE j \in S : \A h \in S : j <= h
(* intended: m/mm directly after an hour token or directly before a seconds token are minutes *)
IsMinutes(items, i) ==
  /\ TokName(items[i]) \in {"m", "mm"}
  /\ LET p == PrevTok(items, i)  q == NextTok(items, i)
     IN  (p > 0 /\ IsHourTok(items[p])) \/ (q > 0 /\ IsSecTok(items[q]))
(* pinned code: "mm" touching a colon is minutes, every other m is a month *)
IsColon(it) == it.t \in {"b", "e"} /\ it.c = <<":">>
ImplMinutes(items, i) ==
  /\ TokName(items[i]) = "mm"
  /\ (i > 1 /\ IsColon(items[i - 1])) \/ (i < Len(items) /\ IsColon(items[i + 1]))
Has12(items, D) == \E i \in DOMAIN items : items[i].t = "d" /\ (TokName(items[i]) = "AM/PM" \/ (TokName(items[i]) = "A/P" /\ KAP \notin D))
UsesCalendar(s) == \E i \in DOMAIN s.pre : s.pre[i].t = "d" /\ TokName(s.pre[i]) \in
                      {"yyyy", "yy", "mmm", "mmmm", "mmmmm", "d", "dd", "ddd", "dddd"} \cup
                      (IF IsMinutes(s.pre, i) THEN {} ELSE {"m", "mm"})
HasElapsed(s) == \E i \in DOMAIN s.pre : s.pre[i].t = "el"
DateInContract(s, m) ==
  /\ Len(m.int) <= 7 /\ Len(m.frac) <= 10 /\ Val(m.int) < MaxSerial
  /\ (UsesCalendar(s) \/ \E i \in DOMAIN s.pre : /\ IsTok(s.pre[i]) /\ TokName(s.pre[i]) \in {"m", "mm"}
                                                  /\ (s.pre[i].t = "el" \/ ~IsMinutes(s.pre, i) \/ ~ImplMinutes(s.pre, i)))
        => Val(m.int) >= MinSerial              \* an m that is, or is taken for, a month needs a calendar day
  /\ HasElapsed(s) => Val(m.int) < 20000
Hour12(h) == IF h % 12 = 0 THEN 12 ELSE h % 12
TokCells(items, i, m, D) ==
  LET it  == items[i]
      nm  == TokName(it)
      c   == Clock(m)
      dt  == DateOfSerial(c.day)
      hh  == c.sod \div 3600
      mi  == (c.sod \div 60) % 60
      ss  == c.sod % 60
      h   == IF Has12(items, D) THEN Hour12(hh) ELSE hh
      asMin == IF KMin \in D THEN ImplMinutes(items, i) ELSE IsMinutes(items, i)
  IN  IF it.t = "el"
      THEN IF nm \in {"h", "hh"}
           THEN (IF KElH \in D THEN Cs(NumChars(MulRec(m, 24))) ELSE Cs(NumCh(c.day * 24 + hh)))
           ELSE IF KElMS \in D
           THEN Cs(<<"[">> \o (CASE nm = "m"  -> NumCh(dt[2])
                                 [] nm = "mm" -> Pad2Chars(dt[2])          \* (the bracket keeps it off the colon)
                                 [] nm = "s"  -> <<"s">>
                                 [] nm = "ss" -> Pad2Chars(ss)) \o <<"]">>)
           ELSE IF nm \in {"m", "mm"} THEN Cs(IF nm = "mm" /\ c.day * 1440 + c.sod \div 60 < 10
                                             THEN Pad2Chars(c.day * 1440 + c.sod \div 60)
                                             ELSE NumCh(c.day * 1440 + c.sod \div 60))
           ELSE Cs(IF nm = "ss" /\ c.day * 86400 + c.sod < 10 THEN Pad2Chars(c.day * 86400 + c.sod)
                   ELSE NumCh(c.day * 86400 + c.sod))
      ELSE CASE nm = "yyyy"  -> Cs(NumCh(dt[1]))
             [] nm = "yy"    -> Cs(Pad2Chars(dt[1] % 100))
             [] nm = "m"     -> Cs(IF asMin THEN NumCh(mi) ELSE NumCh(dt[2]))
             [] nm = "mm"    -> Cs(IF asMin THEN Pad2Chars(mi) ELSE Pad2Chars(dt[2]))
             [] nm = "mmm"   -> Cs(SubSeq(MonthChars[dt[2]], 1, 3))
             [] nm = "mmmm"  -> Cs(MonthChars[dt[2]])
             [] nm = "mmmmm" -> Cs(SubSeq(MonthChars[dt[2]], 1, IF KM5 \in D THEN 3 ELSE 1))
             [] nm = "d"     -> Cs(NumCh(dt[3]))
             [] nm = "dd"    -> Cs(Pad2Chars(dt[3]))
             [] nm = "ddd"   -> Cs(SubSeq(DayChars[(c.day % 7) + 1], 1, 3))
             [] nm = "dddd"  -> Cs(DayChars[(c.day % 7) + 1])
             [] nm = "h"     -> Cs(NumCh(h))
             [] nm = "hh"    -> Cs(Pad2Chars(h))
             [] nm = "s"     -> Cs(IF KS1 \in D THEN <<"s">> ELSE NumCh(ss))
             [] nm = "ss"    -> Cs(Pad2Chars(ss))
             [] nm = "AM/PM" -> (IF hh < 12 THEN << << <<"A","M">>, <<"a","m">> >> >> ELSE << << <<"P","M">>, <<"p","m">> >> >>)
             [] nm = "A/P"   -> (IF KAP \in D THEN Cs(<<"a", "/", "p">>)
                                 ELSE IF hh < 12 THEN << << <<"A">>, <<"a">> >> >> ELSE << << <<"P">>, <<"p">> >> >>)
RenderDate(s, m, D) ==
  IF KUp \in D /\ s.up THEN Cs(NumChars(m))
  ELSE FlatSeq([i \in 1..Len(s.pre) |-> IF IsTok(s.pre[i]) THEN TokCells(s.pre, i, m, D) ELSE ItemCells(s.pre[i])])

---------------------------------------------------------------------------
(* text *)
RenderText(s, tc) == FlatSeq([i \in 1..Len(s.pre) |-> IF s.pre[i].t = "at" THEN Cs(tc) ELSE ItemCells(s.pre[i])])
RenderLit(s) == ItemsCells(s.pre)

---------------------------------------------------------------------------
(* the whole rendering of a number: [panic |-> BOOLEAN, cells |-> cells] *)
FirstItem(s) == IF s.pre # <<>> THEN s.pre[1].t ELSE "ph"
LastItem(s)  == IF s.post # <<>> THEN s.post[Len(s.post)].t
                ELSE IF s.k \in {"date", "text", "lit"} THEN s.pre[Len(s.pre)].t ELSE "ph"
(* (a colour bracket next to a condition stays in the code the pinned code looks at: no quote at its start) *)
QuotedBothEnds(s) == s.k # "date" /\ FirstItem(s) = "q" /\ LastItem(s) = "q" /\ ~(s.cop # <<>> /\ s.color # <<>>)
(* section choice of the pinned code: a trailing text section counts as a numeric one *)
ImplSectionOf(FF, v) ==
  IF Len(FF) = 2 THEN (IF IsNeg(v) THEN 2 ELSE 1)
  ELSE IF Len(FF) \in {3, 4} THEN (IF IsNeg(v) THEN 2 ELSE IF IsZero(v) THEN 3 ELSE 1)
  ELSE 1
RenderSec(FF, s, v, sign, D) ==
  LET m  == Abs(v)
      vv == IF Len(FF) = 1 THEN v ELSE m          \* what the pinned code passes on
  IN  IF KQuoted \in D /\ QuotedBothEnds(s) THEN [panic |-> TRUE, cells |-> <<>>]
      ELSE [panic |-> FALSE, cells |->
             CASE s.k = "num"  -> RenderNum(s, m, sign, D)
               [] s.k = "sci"  -> RenderSci(s, m, sign, D)
               [] s.k = "frac" -> RenderFrac(s, vv, m, sign, D)
               [] s.k = "date" -> RenderDate(s, m, D)
               [] s.k = "lit"  -> (IF KNoPh \in D THEN Cs(NumChars(vv)) ELSE sign \o RenderLit(s))
               [] s.k = "text" -> Cs(NumChars(vv))]          \* only reached through KTxtSec
RenderNumber(FF, v, D) ==
  LET i == IF KTxtSec \in D /\ ~HasCond(FF) THEN ImplSectionOf(FF, v) ELSE SectionOf(FF, v)
  IN  RenderSec(FF, FF[i], v, SignCells(FF, v), D)
(* text t (as characters) under FF *)
RenderTextValue(FF, tc) ==
  IF IsTextSec(FF[Len(FF)]) THEN RenderText(FF[Len(FF)], tc) ELSE Cs(tc)

(* does the chosen section leave the outcome to a tie between fractions? (then the item is not judged) *)
ChosenSec(FF, v) == FF[SectionOf(FF, v)]

---------------------------------------------------------------------------
(* the state machine *)
VARIABLES fi, sg
vars2 == <<n, ds, fi, sg>>

CurF == Catalogue[fi]
CurV == [Num(ds) EXCEPT !.neg = sg /\ ~IsZero(Num(ds))]
CurS == ChosenSec(CurF, CurV)
Out  == RenderNumber(CurF, CurV, MCDev)
OutC == Canon(Out.cells)
CurBody == RoundHalfAway(Scaled(CurS, Abs(CurV), {}), Len(CurS.fp))

Init2 == /\ n \in {b * Block : b \in Starts}
         /\ ds = FixedDigits(n)
         /\ fi = 1 /\ sg = FALSE
Advance == \/ /\ (n + 1) % Block # 0 /\ n < Last
              /\ n' = n + 1 /\ ds' = IncFixed(ds) /\ UNCHANGED <<fi, sg>>
           \/ /\ fi < Len(Catalogue) /\ fi' = fi + 1 /\ UNCHANGED <<n, ds, sg>>
           \/ /\ ~sg /\ sg' = TRUE /\ UNCHANGED <<n, ds, fi>>

(* one action per rendering rule: a step is named after the rules the pair it leaves exercises (every pair but the
   last of a block is left) *)
RPositive   == (~HasCond(CurF) /\ NSec(CurF) >= 2 /\ SectionOf(CurF, CurV) = 1) /\ Advance
RNegative   == (~HasCond(CurF) /\ NSec(CurF) >= 2 /\ SectionOf(CurF, CurV) = 2) /\ Advance
RZero       == (~HasCond(CurF) /\ NSec(CurF) = 3 /\ SectionOf(CurF, CurV) = 3) /\ Advance
RAutoSign   == (~HasCond(CurF) /\ NSec(CurF) = 1 /\ IsNeg(CurV)) /\ Advance
RCondFirst  == (HasCond(CurF) /\ SectionOf(CurF, CurV) = 1) /\ Advance
RCondSecond == (HasCond(CurF) /\ NSec(CurF) = 3 /\ SectionOf(CurF, CurV) = 2) /\ Advance
RCondElse   == (HasCond(CurF) /\ SectionOf(CurF, CurV) = NSec(CurF)) /\ Advance
RPadInt     == (CurS.k = "num" /\ Len(IntDigits(CurBody)) < Len(CurS.ip)) /\ Advance
RWideInt    == (CurS.k = "num" /\ Len(IntDigits(CurBody)) > Len(CurS.ip)) /\ Advance
RDropFrac   == (CurS.k = "num" /\ Len(FracChars(CurS.fp, CurBody.frac)) < Len(CurS.fp)) /\ Advance
RBlankFrac  == (CurS.k = "num" /\ (\E i \in DOMAIN FracChars(CurS.fp, CurBody.frac) : FracChars(CurS.fp, CurBody.frac)[i] = " ")) /\ Advance
RScale      == (CurS.k = "num" /\ CurS.sc > 0 /\ ~IsZero(CurBody)) /\ Advance
RPercent    == (CurS.k = "num" /\ HasPct(CurS)) /\ Advance
RGroup      == (CurS.k = "num" /\ CurS.grp /\ Len(CurBody.int) > 3) /\ Advance
RLiteral    == (CurS.k \in {"num", "lit"} /\ Items(CurS) # <<>>) /\ Advance
RSci        == (CurS.k = "sci" /\ ~IsZero(CurV)) /\ Advance
RSciCarry   == (CurS.k = "sci" /\ ~IsZero(CurV) /\ SciParts(CurS, Abs(CurV)).e # Len(CurS.ip) * FloorDiv(E0(Abs(CurV)), Len(CurS.ip))) /\ Advance
RSciNegExp  == (CurS.k = "sci" /\ ~IsZero(CurV) /\ SciParts(CurS, Abs(CurV)).e < 0) /\ Advance
RFrac       == (CurS.k = "frac" /\ CurS.dfix = <<>>) /\ Advance
RFracCarry  == (CurS.k = "frac" /\ CurS.dfix = <<>> /\ CurS.ip # <<>> /\ ~IsInteger(CurV) /\ \E c \in BestFracs(Val(Abs(CurV).frac), Len(Abs(CurV).frac), Dmax(CurS)) : c[1] = c[2]) /\ Advance
RFracFix    == (CurS.k = "frac" /\ CurS.dfix # <<>>) /\ Advance
RDate       == (CurS.k = "date") /\ Advance
Next2 == \/ RPositive \/ RNegative \/ RZero \/ RAutoSign \/ RCondFirst \/ RCondSecond \/ RCondElse
         \/ RPadInt \/ RWideInt \/ RDropFrac \/ RBlankFrac \/ RScale \/ RPercent \/ RGroup \/ RLiteral
         \/ RSci \/ RSciCarry \/ RSciNegExp \/ RFrac \/ RFracCarry \/ RFracFix \/ RDate
         \/ Advance
Spec2 == Init2 /\ [][Next2]_vars2

---------------------------------------------------------------------------
(* invariants *)
TypeOK2 == /\ TypeOK /\ fi \in 1..Len(Catalogue) /\ sg \in BOOLEAN
           /\ IsNumber(CurV)
           /\ ~Out.panic
CatalogueOK == \A i \in 1..Len(Catalogue) : FormatOK(Catalogue[i])

(* P1: exactly one section applies, and it is the one the cascade finds *)
OneSection ==
  LET FF == CurF  v == CurV
  IN  /\ SectionOf(FF, v) \in 1..NSec(FF)
      /\ \A i \in 1..4 : Applies(FF, i, v) <=> (i = SectionOf(FF, v))

(* the digits of a character sequence *)
DigitsIn(cs) == LET d == SelectSeq(cs, IsDigitCh) IN [i \in 1..Len(d) |-> CHOOSE k \in 0..9 : DC[k + 1] = d[i]]
AllAs(s, c) == [s EXCEPT !.ip = [i \in DOMAIN s.ip |-> c], !.fp = [i \in DOMAIN s.fp |-> c]]
(* P3: with every digit written out the digits shown are round(|v| * 100^p / 1000^sc * 10^k), computed in integer
   arithmetic from n *)
NumValue ==
  CurS.k = "num" =>
    LET s  == CurS
        up == Len(s.fp) + (IF HasPct(s) THEN 2 ELSE 0)          \* n * 10^up
        dn == F + 3 * s.sc                                      \* / 10^dn
        want == IF up >= dn THEN n * Pow10(up - dn)
                ELSE (n * Pow10(up) + Pow10(dn) \div 2) \div Pow10(dn)
    IN  Val(DigitsIn(NumBody(AllAs(s, "0"), Abs(CurV), {}))) = want
(* P3: "0" is a minimum width; "?" keeps the width of "0" with blanks; "#" shows the same digits without the
   insignificant zeros, and nothing significant is lost *)
Placeholders ==
  (CurS.k = "num" /\ ~CurS.grp) =>
    LET s == CurS  m == Abs(CurV)
        z == NumBody(AllAs(s, "0"), m, {})
        h == NumBody(AllAs(s, "#"), m, {})
        q == NumBody(AllAs(s, "?"), m, {})
        dotz == IF s.fp = <<>> THEN Len(z) + 1 ELSE CHOOSE i \in DOMAIN z : z[i] = "."
    IN  /\ Len(q) = Len(z)
        /\ \A i \in DOMAIN q : q[i] = z[i] \/ (q[i] = " " /\ z[i] = "0")
        /\ SelectSeq(q, LAMBDA c : c # " ") = h
        /\ dotz - 1 >= Len(s.ip)
        /\ Len(z) - dotz = (IF s.fp = <<>> THEN -1 ELSE Len(s.fp))
        /\ s.fp # <<>> => \E i \in DOMAIN h : h[i] = "."
        /\ h # <<>> => h[1] # "0"
        /\ s.fp # <<>> => h[Len(h)] # "0"
        /\ Val(DigitsIn(h)) * Pow10(Len(z) - dotz - (Len(h) - (CHOOSE i \in DOMAIN h \cup {Len(h) + 1} :
                                                        i = Len(h) + 1 \/ h[i] = "."))) = Val(DigitsIn(z)) \/ s.fp = <<>>
        /\ s.fp = <<>> => Val(DigitsIn(h)) = Val(DigitsIn(z))
(* P3: grouping puts a comma before every complete group of three shown integer digits and nothing else *)
Grouping ==
  (CurS.k = "num" /\ CurS.grp) =>
    LET s == CurS  m == Abs(CurV)
        g == NumBody([s EXCEPT !.fp = <<>>], m, {})
        u == NumBody([s EXCEPT !.fp = <<>>, !.grp = FALSE], m, {})
    IN  /\ SelectSeq(g, LAMBDA c : c # ",") = u
        /\ \A i \in 1..Len(g) : (g[Len(g) + 1 - i] = ",") <=> (i % 4 = 0)
        /\ g # <<>> => g[1] # ","
(* P2: the literals are all there, in order, around the digit run; the automatic minus comes first *)
LiteralsKept ==
  CurS.k \in {"num", "lit"} =>
    LET s == CurS
        body == IF s.k = "lit" THEN <<>> ELSE NumBody(s, Abs(CurV), {})
    IN  OutC = Canon(SignCells(CurF, CurV)) \o Canon(ItemsCells(s.pre)) \o body \o Canon(ItemsCells(s.post))
(* P1: a section chosen by position renders the magnitude - the same text as |v| under that section alone - and
   an automatic minus appears exactly for negative numbers under a single numeric section *)
NegByPosition ==
  (~HasCond(CurF) /\ NSec(CurF) >= 2 /\ IsNeg(CurV) /\ CurS.k # "date") =>
     OutC = Canon(RenderNumber(<<CurS>>, Abs(CurV), {}).cells)
AutoMinus ==
  (~HasCond(CurF) /\ NSec(CurF) = 1 /\ IsNeg(CurV) /\ CurS.k # "date") =>
     OutC = <<"-">> \o Canon(RenderNumber(CurF, Abs(CurV), {}).cells)

(* P4: |v| = mantissa * 10^e within half a unit of the last mantissa place; e a multiple of the number of integer
   placeholders; 1 <= mantissa < 10^ni *)
SciValue ==
  (CurS.k = "sci" /\ ~IsZero(CurV)) =>
    LET s  == CurS
        p  == SciParts(s, Abs(CurV))
        k  == Len(s.fp)
        M  == Val(p.mant.int \o p.mant.frac)             \* mantissa * 10^k
        ni == Len(s.ip)
        sh == p.e + F - k                                \* |v| * 10^F  vs  M * 10^(e + F - k)
    IN  /\ p.e % ni = 0
        /\ Len(p.mant.frac) = k
        /\ M >= Pow10(k) /\ M < Pow10(k + ni)
        /\ IF sh >= 0 THEN 2 * AbsInt(n - M * Pow10(sh)) <= Pow10(sh)
           ELSE n * Pow10(-sh) = M
SciZero == (CurS.k = "sci" /\ IsZero(CurV)) =>
             LET p == SciParts(CurS, Abs(CurV)) IN p.e = 0 /\ Val(p.mant.int \o p.mant.frac) = 0

(* P5: no fraction with an allowed denominator is closer; lowest terms; the fixed denominator rounds *)
FracValue ==
  CurS.k = "frac" =>
    LET s  == CurS
        a  == Abs(CurV)
        fv == n % Pow10(F)
    IN  /\ Val(a.frac) * Pow10(F - Len(a.frac)) = fv /\ Val(a.int) = n \div Pow10(F)
        /\ IF s.dfix # <<>>
           THEN LET d == Val(s.dfix)  nn == RoundDiv(fv * d, Pow10(F))
                IN  2 * AbsInt(fv * d - nn * Pow10(F)) <= Pow10(F) /\ nn \in 0..d
           ELSE /\ BestFracs(Val(a.frac), Len(a.frac), Dmax(s)) # {}
                /\ \A c \in BestFracs(Val(a.frac), Len(a.frac), Dmax(s)) :
                     /\ c[2] \in 1..Dmax(s) /\ c[1] \in 0..c[2] /\ Gcd(c[1], c[2]) = 1
                     /\ \A d \in 1..Dmax(s) : \A nn \in 0..d :
                           AbsInt(fv * c[2] - c[1] * Pow10(F)) * d <= AbsInt(fv * d - nn * Pow10(F)) * c[2]

(* P6: the closed form of the calendar agrees with the successor rule, day by day (the machine reads n as a block of
   37 consecutive serials); clock arithmetic; the minutes rule *)
DateDay == MinSerial + (n % 79000) * 37
DateSod == ((n % 21600) * 4099) % 86400
Calendar ==
  /\ DateOfSerial(MinSerial) = <<1900, 3, 1>>
  /\ DateOfSerial(25569) = <<1970, 1, 1>>
  /\ DateOfSerial(45435) = <<2024, 5, 23>>
  /\ DateOfSerial(MaxSerial) = <<9999, 12, 31>>
  /\ DayChars[(45435 % 7) + 1] = <<"T","h","u","r","s","d","a","y">>
  /\ DateDay + 37 <= MaxSerial => \A j \in 0..36 : DateOfSerial(DateDay + j + 1) = NextDate(DateOfSerial(DateDay + j))
ClockOK ==
  LET sod == DateSod
      f6  == DigitsOf((sod * 10000) \div 864)             \* floor(sod / 86400 * 10^6)
      up  == IF (sod * 10000) % 864 = 0 THEN f6 ELSE DigitsOf((sod * 10000) \div 864 + 1)
      rec(d6) == [neg |-> FALSE, int |-> DigitsOf(DateDay), frac |-> StripRight(Zeros(6 - Len(d6)) \o d6)]
      lo  == Clock(rec(f6))
      hi  == Clock(rec(up))
  IN  \* a time cut / raised to 6 decimals is less than 0.0864 s off: it still rounds to the same second
      /\ lo = [day |-> DateDay, sod |-> sod]
      /\ Len(up) <= 6 => hi = [day |-> DateDay, sod |-> sod]
      /\ Hour12(sod \div 3600) \in 1..12
      /\ Hour12(sod \div 3600) % 12 = (sod \div 3600) % 12
DateOut ==
  CurS.k = "date" =>
    LET f6 == DigitsOf((DateSod * 10000) \div 864)
        m  == [neg |-> FALSE, int |-> DigitsOf((DateDay % 20000) + MinSerial), frac |-> StripRight(Zeros(6 - Len(f6)) \o f6)]
        o  == Canon(RenderDate(CurS, m, {}))
        c  == Clock(m)
        only(nm) == Len(CurS.pre) = 1 /\ TokName(CurS.pre[1]) = nm
    IN  /\ o # <<>>
        /\ (only("h") /\ CurS.pre[1].t = "el") => Val(DigitsIn(o)) * 3600 <= c.day * 86400 + c.sod
                                                  /\ c.day * 86400 + c.sod < (Val(DigitsIn(o)) + 1) * 3600
=============================================================================
