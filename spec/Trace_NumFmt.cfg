CONSTANTS I = 2 F = 3 KMax = 6 Block = 1000
SPECIFICATION TraceSpec
POSTCONDITION Consumed
CHECK_DEADLOCK FALSE
