CONSTANTS Strs = {"Qa7x", "Qb7x"} MaxBooks = 3 Sharing = "shared" Depth = 4 EmitReplay = FALSE
SPECIFICATION MCSpec
VIEW View
INVARIANTS OnlyReachable Decodes
PROPERTY SaveIsPureMC
CHECK_DEADLOCK FALSE
